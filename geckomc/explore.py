"""E3 - stateless, deviation-bounded exploration over choice sequences (CHESS-style iterative
bounding), parallel over a long-lived worker pool.

run_one(job) must be a picklable top-level function; job = (args, prefix) and it returns a dict
  {"trace": [(kind, n, chosen), ...], "prefix_len": len(prefix),
   "violations": [(key, what, replay), ...],
   "obs": <digest of what the oracle observed>, "end": <digest of the end state>}
Each execution starts from fresh library objects; `prefix` is replayed, defaults are taken
afterwards.  Children of an execution = same choices up to position i, a non-default alternative
at i (i >= len(prefix)).  Cost of a prefix = number of non-default choices at *costed* choice
points; a choice kind ending in '*' is free (e.g. picking the next thread when the running one has
finished or blocked is not a pre-emption).  Buckets are completed in order of cost, so the first
counterexample found has the fewest deviations.
"""
from __future__ import annotations

from . import core


def _cost(kind):
    return 0 if kind.endswith("*") else 1


def explore(ctx, run_one, args, bound, max_execs=None, label="", choice_kinds=None,
            stop_on_violation=True, alt_filter=None):
    stats = {
        "executions": 0,
        "choice_points": 0,
        "max_trace": 0,
        "completed_bound": -1,
        "obs": set(),
        "end": set(),
        "per_bound": [0] * (bound + 1),
        "samples": [],
        "args": args,
    }
    buckets = {d: [] for d in range(bound + 1)}
    buckets[0].append(())
    capped = False
    stopped = False
    found_here = 0
    for d in range(bound + 1):
        while buckets[d] and not capped and not stopped:
            frontier, buckets[d] = buckets[d], []
            if max_execs is not None and stats["executions"] + len(frontier) > max_execs:
                room = max(0, max_execs - stats["executions"])
                ctx.cap(
                    f"{label}: execution cap {max_execs} hit at deviation bound {d} "
                    f"({len(frontier)} pending, {room} run); bound {d-1} fully covered"
                )
                frontier = frontier[:room]
                capped = True
            jobs = [(args, p) for p in frontier]
            cs = max(1, min(32, len(jobs) // (ctx.workers * 4) or 1))
            for res in core.pimap(ctx, run_one, jobs, chunksize=cs):
                trace = [tuple(t) for t in res["trace"]]
                plen = res["prefix_len"]
                stats["executions"] += 1
                stats["per_bound"][d] += 1
                stats["choice_points"] += len(trace)
                stats["max_trace"] = max(stats["max_trace"], len(trace))
                stats["obs"].add(res.get("obs"))
                stats["end"].add(res.get("end"))
                if len(stats["samples"]) < 2 or (d > 0 and len(stats["samples"]) < 4 and all(s_["deviations"] == [] for s_ in stats["samples"][1:])):
                    stats["samples"].append({"plan": label or repr(args)[:120],
                                             "deviations": [[i, k, c] for i, (k, n, c) in enumerate(trace) if c],
                                             "choice_points": len(trace), "verdict": "violation" if res.get("violations") else "ok"})
                if res.get("violations"):
                    found_here += len(res["violations"])
                    ctx.merge_violations(res["violations"])
                for i in range(plen, len(trace)):
                    kind, n, c = trace[i]
                    if choice_kinds is not None and kind.rstrip("*") not in choice_kinds:
                        continue
                    nd = d + _cost(kind)
                    if nd > bound:
                        continue
                    for alt in range(1, n):
                        if alt_filter is not None and not alt_filter(trace, i, alt):
                            continue
                        buckets[nd].append(tuple(trace[:i]) + ((kind, n, alt),))
            if stop_on_violation and found_here:
                stopped = True
                break
        if capped or stopped:
            break
        stats["completed_bound"] = d
    stats["stopped_on_violation"] = stopped
    return stats


def explore_local(run_one, args, bound, max_execs=None, choice_kinds=None, stop_on_violation=True):
    """The same deviation-bounded enumeration, run sequentially in the calling process (for many tiny plans, where
    one worker explores one whole plan).  -> dict(executions, obs, violations, capped, completed_bound)."""
    out = {"executions": 0, "obs": set(), "violations": [], "capped": False, "completed_bound": -1, "choice_points": 0}
    buckets = {d: [] for d in range(bound + 1)}
    buckets[0].append(())
    for d in range(bound + 1):
        while buckets[d]:
            frontier, buckets[d] = buckets[d], []
            for p in frontier:
                if max_execs is not None and out["executions"] >= max_execs:
                    out["capped"] = True
                    return out
                res = run_one((args, p))
                trace = [tuple(t) for t in res["trace"]]
                plen = res["prefix_len"]
                out["executions"] += 1
                out["choice_points"] += len(trace)
                out["obs"].add(res.get("obs"))
                if res.get("violations"):
                    out["violations"].extend(res["violations"])
                    if stop_on_violation:
                        return out
                for i in range(plen, len(trace)):
                    kind, n, c = trace[i]
                    if choice_kinds is not None and kind.rstrip("*") not in choice_kinds:
                        continue
                    nd = d + _cost(kind)
                    if nd > bound:
                        continue
                    for alt in range(1, n):
                        buckets[nd].append(tuple(trace[:i]) + ((kind, n, alt),))
        out["completed_bound"] = d
    return out


def run_with(prefix, body):
    """Helper for run_one implementations: body(chooser) -> dict; adds trace/prefix_len."""
    from .vloop import Chooser

    ch = Chooser(prefix)
    out = body(ch)
    if len(ch.trace) < len(ch.prefix):
        raise core.HarnessError(
            f"replay consumed only {len(ch.trace)} of {len(ch.prefix)} recorded choices"
        )
    out["trace"] = ch.trace
    out["prefix_len"] = len(ch.prefix)
    return out


def fold_stats(ctx, stats, prefix=""):
    """Put explorer statistics into the evidence coverage."""
    ctx.add(prefix + "executions", stats["executions"])
    ctx.add(prefix + "choice_points_seen", stats["choice_points"])
    ctx.set(prefix + "max_choice_points_per_execution", stats["max_trace"])
    ctx.set(prefix + "completed_deviation_bound", stats["completed_bound"])
    ctx.set(prefix + "executions_per_bound", stats["per_bound"])
    ctx.set(prefix + "distinct_observations", len(stats["obs"]))
    ctx.set(prefix + "distinct_end_states", len(stats["end"]))
    for smp in stats.get("samples", [])[-2:]:
        ctx.sample({"explored_execution": smp})
