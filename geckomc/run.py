"""python -m geckomc.run <ID> [--tier quick|thorough] [--replay FILE] [--workers N] | --selftest"""
from __future__ import annotations

import argparse
import importlib
import json
import logging
import os
import sys

from . import core


def main(argv=None):
    ap = argparse.ArgumentParser()
    ap.add_argument("pid", nargs="?")
    ap.add_argument("--tier", default=os.environ.get("VERIF_TIER", "quick"))
    ap.add_argument("--replay")
    ap.add_argument("--workers", type=int, default=int(os.environ.get("GECKOMC_WORKERS", "0")))
    ap.add_argument("--selftest", action="store_true")
    a = ap.parse_args(argv)
    if a.tier not in ("quick", "thorough"):
        a.tier = "quick"
    try:
        seed = int(os.environ.get("VERIF_SEED", "0"))
    except ValueError:
        seed = 0
    workers = a.workers or min(16, os.cpu_count() or 1)
    try:
        core.use_repo()
        from . import lib  # noqa: F401  (installs quiet logging)
    except Exception as e:  # the tree under test does not even import
        core.fatal(f"cannot import geckolib from {core.REPO}: {e!r}")

    if a.selftest:
        from . import selftest

        try:
            rc = selftest.main()
        except Exception as e:
            core.fatal(f"selftest crashed: {e!r}")
        core.close_pool()
        sys.exit(rc)

    if not a.pid:
        ap.error("property id required")
    pid = a.pid.upper()
    try:
        mod = importlib.import_module(f"geckomc.props.{pid.lower()}")
    except ModuleNotFoundError as e:
        core.fatal(f"no harness for {pid}: {e!r}")
    ctx = core.Ctx(pid, a.tier, seed, workers, mod.LEVEL)
    try:
        if a.replay:
            ctx.replaying = True
            with open(a.replay) as f:
                data = json.load(f)
            mod.replay(ctx, core.unjson_bytes(data["replay"]))
        else:
            mod.run(ctx)
    except core.HarnessError as e:
        # a vacuity / set-up complaint raised AFTER genuine unlisted violations were found is a consequence of the
        # broken tree, not a reason to discard them: report the violations (exit 1) and mention the complaint
        known = core.Known()
        if not any(known.match(pid, k) is None for k in ctx.violations):
            core.fatal(f"{pid}: {e}")
        ctx.log(f"harness complaint after violations were found (reported anyway): {e}")
        for k, dflt in (("states", 1), ("transitions", 1), ("traces_validated_against_impl", 1), ("evaluations", 1),
                        ("distinct_nontrivial", 2), ("executions", 1)):
            ctx.cov.setdefault(k, dflt)
        ctx.cap(f"harness complaint after violations: {e}")
    except Exception as e:
        core.fatal(f"{pid}: harness crashed: {e!r}")
    rc = core.finish(ctx)
    core.close_pool()
    sys.stdout.flush()
    sys.exit(rc)


if __name__ == "__main__":
    main()
