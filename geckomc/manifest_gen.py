"""Regenerates MANIFEST.json from the table below (python -m geckomc.manifest_gen)."""
import json, os, sys

HERE = os.path.dirname(os.path.dirname(os.path.abspath(__file__)))
ALL = [f"C{i:02d}" for i in range(1, 21)]

CHECKS = {}


def check(pid, category, text, note, technique, design_ref, engine):
    CHECKS[pid] = dict(category=category, text=text, note=note, technique=technique, design_ref=design_ref, engine=engine)


check("C16", "model_checking",
      "Explicit-state BFS over every reachable (protocol,command) counter state of both real implementations (12,480 states each, closure reached) in lock-step with a reference successor function; real threads on the threaded socket under a controlled scheduler, all schedules up to a pre-emption bound; every sequenced datagram of an async run (incl. a lossy phase) classified by range and checked to be the successor of the previous one of its kind (also on a re-connected spa object, after OS-reported send failures, a refresh that loses a segment, plain-setter writes and on a really connected blocking client), every threaded call site classified by range; writer threads on the real blocking client (one value unencodable) under the scheduler.",
      "CPython GIL with switches at traced line/opcode boundaries only; counter method depends only on the two counters; request kinds = those the clients can emit in the scripted run / enumerated call sites.",
      "explicit-state BFS (closure) + pre-emption-bounded schedule enumeration of real threads", "DESIGN.md §2 C16", "E4+E5")

check("C01", "fault_enumeration",
      "Real async and threaded transfer code against the real simulator on an in-memory network: all 524,800 (start,length) pairs at chain level, the client path for a large subset (thorough: every pair), ALL fate vectors {deliver,drop,dup,delay-past-successor,delay-into-next-attempt} over request+segments of 1-3 segment transfers, deviation-bounded fate vectors on the 27-segment transfer with the configured retry count, stationary adversaries, two-transfer sequences, and block contents carrying every framing/verb delimiter at every alignment inside a segment; oracle = installed bytes/untouched block/request budget.",
      "One pattern block (neighbouring 39-byte slices differ, all byte values) with the complement as client block plus the delimiter blocks - beyond those the transfer code only slices and joins; delays shorter than the gap between transfers; virtual time.",
      "exhaustive fate-vector enumeration + deviation-bounded fault injection on the real transfer code", "DESIGN.md §2 C01", "E1+E2+E3")
check("C05", "model_checking",
      "All histories (stateless, fresh really-connected client per history) up to depth 3/4 over a 13-event alphabet of partial updates (0-3 records, overlapping/repeated positions, 1-byte record, back-to-back messages), refreshes served by the real simulator a partial update landing mid-refresh, bursts of 30..600 pending updates, messages of 4..255 records, positions in the configuration section, quiet periods of 5..35 minutes before every event, the same spa object connected twice, updates arriving while a request of the client's own is outstanding, and histories that BEGIN with a partial update inside the handshake (after every client datagram x delays); async and threaded clients; lock-step with a sequentially updated reference block; exactly one protocol-range STATQ per STATP.",
      "positions/values from a small set (handlers treat them opaquely); refresh window of the default snapshot's tables.",
      "exhaustive bounded-depth history enumeration against a reference model", "DESIGN.md §2 C05", "E1+E2")
check("C06", "model_checking",
      "Real protocol.get/lock/wait_for_response of a connected client: 1-3 concurrent callers (incl. the status-block request engine) x arrival offsets x retry counts, ALL reply-fate vectors {deliver,drop,late}, unsolicited noise near timeouts, reply latencies on a 50 ms grid inside the time-out and up to just under it with the call off the pollers' grid (a reply at the head of the queue before the waiter's last look is taken), one caller cancelled by its client at every phase, the endpoint closing under the callers, a stalled event loop, background requests that lose their reply on the full stack, timer-order (polling jitter) and timer-batch deviations with a third caller swept over three polling periods; oracle on datagrams + wait intervals (attempts<=R, fresh request per attempt, one in flight, FIFO service, result iff reply, completion bound). Gates: every gated API invoked on a tick grid around (and long after) the moment the spa stops answering pings, in the idle and in the active configuration, and on a spa whose connection attempt failed at each handshake step.",
      "wait intervals observed via a harness-installed wrapper of wait_for_response; virtual time; simulator as responder. The check-then-act gate defect is a recorded known finding.",
      "exhaustive fate-vector + bounded schedule-deviation exploration of the real request engine", "DESIGN.md §2 C06", "E1+E2+E3")
check("C07", "model_checking",
      "Connected client with all five consumers (queue wrapped from outside, handshake included): all arrival sequences up to length 3 over a 15-datagram alphabet (known, unknown, binary, unsolicited, mis-addressed, malformed framing) x relative offsets x active waiter (none, ping, status block, a ping whose first attempt is lost with arrivals on a 20 ms grid around its time-out and retry instants), slow client callbacks, two connections in one process, plus timer-order/batch deviations; each item popped exactly once by unhandled or an accepting consumer, head residence <= 3 polls, mis-addressed content never re-queued, no effect on block/events/observers.",
      "well-formed payloads for known verbs (malformation at framing level, as the property says).",
      "exhaustive bounded arrival-sequence enumeration + bounded schedule deviations on the real dispatch code", "DESIGN.md §2 C07", "E1+E2+E3")

check("C08", "model_checking",
      "Explicit-state BFS to CLOSURE (~1,200 states, ~10,000 transitions) over the real GeckoAsyncSpaMan (real pump, _handle_event, reset, set_spa_info, locate/connect wrappers, status sensor, real spa.disconnect) with discover/_connect outcomes injected step-wise, spa-originated events raised from their own tasks, user resets, suspension of the client's handle_event and its failing inside a started phase, plus an exit of the manager at every state in which the pump is inside a started phase; lock-step with a lifecycle table + invariants at every delivery.",
      "environment injected at the discover/_connect seams (as tests/test_spaman.py does); light facade that fails exactly when the real constructor must; state canonicalisation documented in props/c08.py.",
      "explicit-state BFS over real objects (rebuild-and-replay) to closure, reference-table lock-step", "DESIGN.md §2 C08", "E4 on E1")
check("C09", "fault_enumeration",
      "Whole async stack against the real simulator in virtual time: fault scripts (start point x up to 3 phases from {blackout, RF-error, lossy(every 2nd request / STATU+CURCH / all pings), sends refused by the OS} x durations, connections made under loss followed by a long blackout, a user reset/set_spa_info after an outage from every start point, the spa moving to a new address that the user enters, plain and yielding client handlers) and user reset/set_spa_info injected at EVERY loop step of the baseline connection (+ timer-order deviations); bounded liveness: CONNECTED within B virtual seconds of the network being healthy with the client block mirroring the spa, unreachable spa reported in time, sequence pump never ends.",
      "bound derived from the idle GeckoConfig; network healthy for ever after the script; two recorded known findings (ERROR_SPA_NOT_FOUND terminal, reset in the last steps of a connection attempt).",
      "exhaustive crash-point injection + enumerated fault scripts on the real stack (bounded liveness)", "DESIGN.md §2 C09", "E1+E2+E3")
check("C10", "fault_enumeration",
      "Whole async stack: async_reset and context exit injected at every loop step through discovery/handshake/early steady state and a stride through the periodic tail, blackout and error states (+ first steps of every state, RF-error/slow-client, yielding-client, failed-send and corrupted-config-file baselines, the library's own ping-triggered resets, partial updates inside the teardown window, a per-connection cap on live SPA tasks/endpoints after every reset, the configuration table re-installed at every step of the handshake, user commands in flight (acknowledgements lost) at the injection, timer deviations before the injection, reconnect cycles); every endpoint/task existing at the injection must be closed/done promptly, late datagrams to old endpoints must not reach client observers, resources must not grow over cycles.",
      "endpoints = VTransports handed out by the harness loop; 'promptly' = 5 virtual s (12 s for a discovery legitimately in progress); known finding: context exit leaves the spa endpoint open.",
      "exhaustive crash-point injection with resource accounting on the real stack", "DESIGN.md §2 C10", "E1+E2+E3")
check("C15", "model_checking",
      "Real GeckoAsyncLocator.discover against scripted responders: all spa sets of size 0..3 (and neighbourhoods of 12..25 spas) from a pool with '|', latin-1, control-character and empty names/identifiers x per-spa latency from a 6-value grid around the initial wait and the timeout x reply multiplicity (1, 2, 8, 12) x loss of the first 1..2 replies of one spa x 7 filter modes (incl. a sub-net address, alone and with an identifier), awaiting client handlers, a loaded host (late wake-ups), plus timer-order/batch deviations <=2; oracle on the listed descriptors, the return time, endpoint closure and helper tasks.",
      "responders answer every broadcast they hear; replies built by a reference encoder; a spa that lost only its first reply must be listed by a run that lasts the initial wait.",
      "exhaustive scenario enumeration + bounded schedule deviations on the real locator", "DESIGN.md §2 C15", "E1+E2+E3")
check("C17", "model_checking",
      "Real config_sleep/set_config_mode on the virtual loop: all switch sequences up to length 4 from the pristine and from a poisoned root (table completeness), up to 3 sleepers x delays x starts x up to 2 switches on a common time grid, looping sleepers, one sleeper cancelled in its sleep, with EVERY order of simultaneous timers and (deviation-bounded) asyncio's batching of simultaneous timers; real connected facades of 5 snapshot configurations through every on/off combination of pumps and blowers, the table right after the facade's first update and after a device change that lands while the facade's own update awaits its reply.",
      "a switch before any sleeper ever ran trips the library's own assert and is excluded; early wake-ups are not excluded by the statement and not reported.",
      "exhaustive enumeration of sleeper/switch plans with all tie orders (unbounded deviations)", "DESIGN.md §2 C17", "E1+E3")

check("C02", "exploration",
      "Real accessors of every shipped table on real structure objects: per geometric shape ALL prior field contents x ALL domain values (bit-fields), ALL domain values x prior patterns (bytes, words, HH:MM, every raw temperature word in both units) at the shipped position, both block edges and the middle; every one of the ~20,500 items on three backgrounds; both write paths; every device write followed onto the wire (the clients' SPACK constructor decoded by the reference layout); blocking writes on a really connected async spa; two structures of one pack in one process; reference bit-field codec built from the raw declarations.",
      "background outside the field: seed-chosen pattern; shapes that exist only read-only are tested for refusal only.",
      "exhaustive input enumeration per shape + per-item binding sweep against a reference codec", "DESIGN.md §2 C02", "E6")
check("C03", "model_checking",
      "Real replace_status_block_segment/status_block_changed on both structure classes: per shape every patch geometry around the item x ALL 256^2 old/new contents of the patched byte (boundary sets for the rest), every shipped table through a full refresh and a changing + non-changing patch of every byte, every sequence of the basic observer operations up to length 5 and a BFS to closure over watch/unwatch/update histories incl. watch/unwatch calls and updates made from inside a notification, and refreshes through the real transfer code of both clients with 2-byte items on every segment boundary; oracle = reference decode of old/new blocks, callback count/arguments, block already swapped in every callback.",
      "quick tier does the full 256^2 sweep on the blocking structure at the shipped position and boundary pairs on the edge twins / awaitable structure; thorough does all.",
      "exhaustive update enumeration against a reference decoder + explicit-state BFS of observer lists", "DESIGN.md §2 C03", "E4+E6")
check("C04", "exploration",
      "Every constructor of driver/protocol/*.py with every scalar field over its whole range, payload token strings (framing tags, newlines, NUL, <, >, |) up to length 4/5, all reminder types x signed day boundaries, every shipped platform x version in the config-file reply, latin-1 hello names and names made of protocol words, every byte value inside packet identifiers, long-lived handlers decoding after messages of other shapes and seeing the same identifiers from other addresses; compared byte-for-byte with an independent reference codec, offered to every standard handler family (exactly one must claim it), decoded by a fresh peer handler, passed through the framing extractor, reply addressing swapped.",
      "reference codec written from the protocol layout; SETWC/WCREQ unclaimed is a recorded known finding.",
      "exhaustive field-domain enumeration against a reference codec", "DESIGN.md §2 C04", "E6")
check("C11", "exploration",
      "All 895 platform x config x log combinations: real async and blocking facades constructed on zeros/ones/every shipped snapshot + complement/random blocks, every public read-only member evaluated; every byte the API reads swept through all 256 contents (wiring bytes: every label index + out-of-range boundaries), coupled-item sweeps, all watercare bytes and reminder lists; no exception, out-of-range enums read 'Unknown'.",
      "facades built on a stand-in spa exposing the real structure/accessors; byte sweeps run on the 139 combinations that cover every cfg and every log version of each platform (thorough: all 256 contents, both sweeps), the block set on all 895; 18 unconstructible combinations are recorded known findings.",
      "exhaustive configuration enumeration + one-field-exhaustive input sweeps", "DESIGN.md §2 C11", "E6")
check("C12", "exploration",
      "Output wirings written through the reference codec on platform x config x log combinations (every single assignment, label pairs on the two richest outputs, same-device H/L variants on every output pair, device pairs and maximal sets, all-same-label, empty, snapshot wirings); real async and blocking facades compared with an independent recomputation of the inventory (devices in table order, classes, demand items, modes, sensors, unique keys, lookup); one long-lived blocking facade per combination re-scanned on every block (non-initial states); blocking facade under PYTHONHASHSEED 0..15; its readiness flag against a polling client thread under the thread scheduler (pre-emption bounded).",
      "quick: every cfg with the latest log and every log with the latest cfg; thorough: all 895.",
      "exhaustive wiring enumeration against an independent inventory model", "DESIGN.md §2 C12", "E6")
check("C13", "model_checking",
      "Whole async stack really connected to a spa model (real simulator + applies writes/key presses, follows demands, stores watercare mode, echoes STATP): every device x every current state x every argument (+ command pairs, + commands issued at every phase of the client's own background GETWC/REQRM/STATU/APING requests, also when that request is lost once, + every running level of a switch as current state); blocking facade on the stepped engine; exactly one well-formed command (none when already there), pack type/versions/position/value/sequence range decoded by the reference codec, spa-side effect and client read-back after the echo.",
      "the spa's reaction to commands is modelled (documented in props/c13.py); the ping-gate drop after a mode switch is a recorded known finding.",
      "exhaustive command enumeration on the real stack against a spa model", "DESIGN.md §2 C13", "E1+E2")
check("C14", "exploration",
      "Real temperature accessor: all 65,536 raw words x both units x both unit orders read, every representable value written back exactly (float and string, both paths), every decimal k/100 around the limits within one device step and monotone; real GeckoWaterHeater on all 895 combinations (+ synthetic packs lacking the flag items): unit symbol, limits, readings, full operation ladder incl. readings one device step apart, unit bytes outside the two labels, set points the spa does not take.",
      "heater built on a stand-in facade over the real tables.",
      "exhaustive value-domain enumeration", "DESIGN.md §2 C14", "E6")
check("C18", "exploration",
      "Complete enumeration of the shipped table set (164 modules, ~20,500 items): geometry from the raw declarations (inside block, bit field inside bytes, labels representable), advertised keys resolve, module name/version/config-file naming round trip, item-by-item comparison with the layout pinned under /verif/pins, effective writability, both clients' real table lookup and requested refresh window for every platform x cfg x log, for versions no module declares and for sibling platforms of one pack type looked up in one process, the published layouts on long-lived structures that carried other tables before, and the layout (labels, live writability) after both facades were built on the structure.",
      "finite configuration space enumerated completely, not behaviours; two table-data defects are recorded known findings.",
      "exhaustive enumeration of a finite table set + golden layout comparison", "DESIGN.md §2 C18", "E6")
check("C19", "exploration",
      "Real GeckoShell.do_snapshot through the shell's log format parsed back (every byte value at every position class, version tuples, pack names, snapshot names over a token alphabet; one long-lived shell; every parsed snapshot saved and parsed again); DEBUG traffic log of the real blocking handshake for every simulator segment size 4..255 and STATV contents over all strings <=3/4 from the quote/escape alphabet reassembled by the parser, irregular segmentations; every shipped snapshot loaded into the simulator and served to a real async client (incl. its periodic refresh), one simulator reloading all of them in sequence, and served with the simulator's own loss model on (its random draws as choice points, all vectors / deviation-bounded, both clients).",
      "scratch log files under /tmp, removed after each case.",
      "exhaustive input enumeration of the capture/parse round trip", "DESIGN.md §2 C19", "E6 + stepped engine")
check("C20", "model_checking",
      "Real GeckoUdpSocket._thread_func stepped in virtual time: all registration orders x all datagram sequences <=3 with raising handlers and every subset of handlers being pending requests; all (T, N, reply point) retry cases incl. long budgets, requests behind a send backlog and sends refused by the OS; all enqueue patterns of <=4 sends (distinct and repeated handler objects) under fast incoming traffic, retransmissions against a send backlog; handshake of the blocking client vs the real simulator under every loss vector from a grid (+ budget exhaustion); queue_send and handler-list cleanup vs add_receive_handler from real threads under the controlled scheduler, pre-emption bounded.",
      "engine iterations stepped deterministically; real threads only for the queue check (GIL, line-level switches).",
      "exhaustive scenario enumeration on the stepped engine + pre-emption-bounded thread schedules", "DESIGN.md §2 C20", "stepped engine + E5")

NOT_YET = "harness not built yet in this session (planned, see DESIGN.md §2)"

def main():
    m = {
        "version": 1,
        "setup_cmd": "./check --selftest",
        "hooks": {
            "guard": "GECKOLIB_VERIF",
            "enable": "no hooks: every seam is reached by the harness from outside (virtual loop, in-memory network, monkey-patched clock); nothing in /repo reads the guard",
            "baseline_off_cmd": "cd /repo && /venv/bin/python -m pytest -ra -q -p no:cacheprovider --timeout=900 --continue-on-collection-errors",
            "source_commits": [],
            "add_only": True,
        },
        "engines": [
            {"name": "E1 VLoop", "path": "geckomc/vloop.py", "kind_free_text": "deterministic virtual-time asyncio loop; timer-order and timer-batch choice points; replayable choice traces"},
            {"name": "E2 VNet", "path": "geckomc/vnet.py", "kind_free_text": "in-memory UDP with per-datagram fate choice points; real GeckoSimulator as peer (geckomc/peers.py)"},
            {"name": "E3 explore", "path": "geckomc/explore.py", "kind_free_text": "stateless deviation-bounded DFS over choice sequences, parallel, iterative bounding"},
            {"name": "E4 BFS", "path": "geckomc/props/c08.py", "kind_free_text": "explicit-state BFS over real objects (state = event history, rebuild-and-replay, canonical hashing), closure"},
            {"name": "E5 threads", "path": "geckomc/threads.py", "kind_free_text": "sys.settrace baton scheduler for real threads, pre-emption bounded"},
            {"name": "E6 enumerators", "path": "geckomc/refmodels/", "kind_free_text": "exhaustive input/configuration enumerators with reference codecs (bit-field, wire)"},
            {"name": "stepped engine", "path": "geckomc/stepped.py", "kind_free_text": "the legacy threaded socket loop run iteration by iteration on mock sockets in virtual time"},
        ],
        "checks": [],
        "not_applicable": [],
        "notes": "Every check: ./check <ID> --tier quick|thorough; exit 0 held, 1 VIOLATION, 2 harness error. Known findings: known_findings.json.",
    }
    for pid in ALL:
        if pid in CHECKS:
            c = CHECKS[pid]
            m["checks"].append({
                "property_id": pid,
                "quick_cmd": f"./check {pid} --tier quick",
                "thorough_cmd": f"./check {pid} --tier thorough",
                "evidence_file": f"/verif/evidence/{pid}.json",
                "replay_cmd_template": f"./check {pid} --replay {{path}}",
                "engine": c["engine"],
                "level_claimed": {"category": c["category"], "text": c["text"], "design_ref": c["design_ref"]},
                "level_note": c["note"],
                "technique": c["technique"],
            })
        else:
            m["not_applicable"].append({"property_id": pid, "reason": NOT_YET})
    for e in m["engines"]:
        e["serves_properties"] = sorted(p for p, c in CHECKS.items() if e["name"].split()[0] in c["engine"])
    with open(os.path.join(HERE, "MANIFEST.json"), "w") as f:
        json.dump(m, f, indent=1)
    print("MANIFEST.json:", len(m["checks"]), "checks,", len(m["not_applicable"]), "not claimed")

if __name__ == "__main__":
    main()
