"""E5 - controlled scheduler for real threads running real library code.

Each controlled thread runs under sys.settrace; at every 'line' (or 'opcode') event inside the
traced source files it hands the baton back to the scheduler, which picks the next runnable
thread through the Chooser.  Canonical order of the options: the thread that was running first if
it is still enabled, then ascending thread ids - so a non-zero choice while the running thread is
enabled is a pre-emption (costed, kind 'thread'); when the running thread has finished or blocked
the choice is free (kind 'thread*').

The object's real threading.Lock must be replaced by CoopLock (a real lock would block the
OS thread holding the baton and hang the scheduler).  Memory model assumed: CPython GIL, thread
switches only at traced line/opcode boundaries.
"""
from __future__ import annotations

import sys
import threading

from .core import HarnessError


class Deadlock(Exception):
    pass


class _T:
    def __init__(self, tid, body):
        self.tid = tid
        self.body = body
        self.sem = threading.Semaphore(0)
        self.done = False
        self.blocked_on = None
        self.result = None
        self.error = None
        self.thread = None
        self.steps = 0


class CoopLock:
    def __init__(self, sched):
        self.sched = sched
        self.owner = None
        self.acquisitions = 0

    def acquire(self, blocking=True, timeout=-1):
        s = self.sched
        me = s.current_t()
        if me is None:  # not under the scheduler (setup code)
            self.owner = "outside"
            return True
        s.yield_point(me)  # scheduling point before the lock operation
        while self.owner is not None:
            me.blocked_on = self
            s.yield_point(me)
        self.owner = me.tid
        self.acquisitions += 1
        return True

    def release(self):
        self.owner = None
        for t in self.sched.threads:
            if t.blocked_on is self:
                t.blocked_on = None

    def __enter__(self):
        self.acquire()
        return self

    def __exit__(self, *a):
        self.release()

    def locked(self):
        return self.owner is not None


class Sched:
    def __init__(self, chooser, files, opcodes=False, max_steps=100000):
        self.chooser = chooser
        self.files = tuple(files)
        self.opcodes = opcodes
        self.threads = []
        self.main_sem = threading.Semaphore(0)
        self._local = threading.local()
        self.max_steps = max_steps
        self.schedule = []  # tids in the order they were given the baton
        self.deadlock = False

    def current_t(self):
        return getattr(self._local, "t", None)

    # -- called from controlled threads ---------------------------------------------
    def yield_point(self, t):
        t.steps += 1
        self.main_sem.release()
        t.sem.acquire()

    def _tracer(self, frame, event, arg):
        if event == "call":
            if frame.f_code.co_filename.endswith(self.files):
                if self.opcodes:
                    frame.f_trace_opcodes = True
                return self._local_trace
            return None
        return None

    def _local_trace(self, frame, event, arg):
        if event == ("opcode" if self.opcodes else "line"):
            t = self._local.t
            self.yield_point(t)
        return self._local_trace

    def _run_thread(self, t):
        self._local.t = t
        t.sem.acquire()  # wait to be scheduled the first time
        sys.settrace(self._tracer)
        try:
            t.result = t.body()
        except BaseException as e:  # noqa
            t.error = e
        finally:
            sys.settrace(None)
            t.done = True
            self.main_sem.release()

    # -- scheduler ------------------------------------------------------------------
    def run(self, bodies):
        self.threads = [_T(i, b) for i, b in enumerate(bodies)]
        for t in self.threads:
            t.thread = threading.Thread(target=self._run_thread, args=(t,), daemon=True)
            t.thread.start()
        current = None
        n = 0
        while True:
            enabled = [t for t in self.threads if not t.done and t.blocked_on is None]
            if not enabled:
                if any(not t.done for t in self.threads):
                    self.deadlock = True
                break
            if current is not None and current in enabled:
                order = [current] + [t for t in enabled if t is not current]
                kind = "thread"
            else:
                order = enabled
                kind = "thread*"
            t = order[self.chooser.choose(kind, len(order))]
            current = t
            self.schedule.append(t.tid)
            t.sem.release()
            self.main_sem.acquire()
            n += 1
            if n > self.max_steps:
                raise HarnessError("thread scheduler: step budget exceeded")
        if self.deadlock:
            # leave blocked daemon threads parked; report
            return [t.result for t in self.threads]
        for t in self.threads:
            t.thread.join(5)
            if t.thread.is_alive():
                raise HarnessError("controlled thread did not finish")
        return [t.result for t in self.threads]
