"""Stepped threaded stack: the real GeckoUdpSocket._thread_func run for exactly n iterations per
step, on a mock socket, in virtual time.  No OS thread of the legacy stack is ever started.

* StepEvent replaces the engine's exit event: it answers "not set" to the engine loop's own
  `isopen` test exactly `budget` times, so `_thread_func()` returns after that many iterations;
  every other caller of isopen sees "open".
* MockSock: recvfrom() pops the next scripted datagram or raises socket.timeout (advancing the
  virtual clock by the socket timeout); sendto() records (virtual time, data, dest) and hands the
  datagram to the ThreadNet, which applies a fate and queues it for the destination engine.
* VClock is installed as time.monotonic for the duration of a run.
"""
from __future__ import annotations

import socket as _socket
import sys
import time as _time


class VClock:
    def __init__(self, start=5000.0):
        self.t = float(start)

    def __call__(self):
        return self.t

    def advance(self, dt):
        self.t += dt


class StepEvent:
    """Stands in for the engine's exit event.  The engine loop's own `isopen` tests see "open" while the
    iteration budget lasts; the budget is decremented at the END of each iteration (by a wrapper around the
    loop's last call, `_loop_func`), so any further isopen test inside an iteration sees "open" as well.
    Every other caller of isopen sees "open" until close()."""

    def __init__(self):
        self.budget = 0
        self.closed = False

    def is_set(self):
        if self.closed:
            return True
        caller = sys._getframe(2).f_code.co_name  # is_set <- isopen <- caller
        if caller == "_thread_func":
            return self.budget <= 0
        return False

    def set(self):
        self.closed = True

    def wait(self, timeout=None):
        return self.closed


class MockSock:
    def __init__(self, engine_name, net, addr):
        self.name = engine_name
        self.net = net
        self.addr = addr
        self.inbox = []  # (arrival_time, seq, data, src)
        self.sent = []  # (t, data, dest)
        self.timeout = 0.05
        self.closed = False
        self.fail_send = None  # fail_send(data, dest) -> True: the OS refuses this send (OSError), nothing reaches the wire
        self.refused = []

    def settimeout(self, t):
        self.timeout = t

    def setsockopt(self, *a):
        pass

    def bind(self, *a):
        pass

    def close(self):
        self.closed = True

    def sendto(self, data, dest):
        t = self.net.clock()
        if self.fail_send is not None and self.fail_send(bytes(data), dest):
            self.refused.append((t, bytes(data), dest))
            raise OSError(101, "Network is unreachable (injected)")
        self.sent.append((t, bytes(data), dest))
        self.net.send(self.addr, (dest[0], dest[1]), bytes(data))

    def recvfrom(self, n):
        now = self.net.clock()
        due = [e for e in self.inbox if e[0] <= now]
        if due:
            e = min(due, key=lambda e: (e[0], e[1]))
            self.inbox.remove(e)
            self.net.clock.advance(0.001)
            return e[2], e[3]
        # block for the socket timeout or until the next arrival, whichever is first
        nxt = min((e[0] for e in self.inbox), default=None)
        if nxt is not None and nxt <= now + self.timeout:
            self.net.clock.advance(max(0.0, nxt - now))
            e = min((e for e in self.inbox if e[0] <= self.net.clock()), key=lambda e: (e[0], e[1]))
            self.inbox.remove(e)
            self.net.clock.advance(0.001)
            return e[2], e[3]
        self.net.clock.advance(self.timeout)
        raise _socket.timeout()


class ThreadNet:
    """In-memory network between stepped engines; fates decided by `fates(src,dst,data)` through
    the chooser (same convention as VNet)."""

    def __init__(self, chooser, latency=0.002):
        self.clock = VClock()
        self.chooser = chooser
        self.socks = {}
        self.latency = latency
        self.fates = None
        self.log = []
        self._seq = 0

    def sock(self, name, addr):
        s = MockSock(name, self, addr)
        self.socks[addr] = s
        return s

    def send(self, src, dst, data):
        fate = "deliver"
        if self.fates is not None:
            opts = self.fates(src, dst, data)
            if opts and len(opts) > 1:
                fate = opts[self.chooser.choose("fate", len(opts))]
            elif opts:
                fate = opts[0]
        self.log.append((self.clock(), fate, src, dst, data))
        if fate == "drop":
            return
        delays = [self.latency]
        if fate == "dup":
            delays.append(self.latency)
        elif fate.startswith("delay:"):
            delays = [self.latency + float(fate.split(":")[1])]
        targets = [self.socks[dst]] if dst in self.socks else (
            [s for a, s in self.socks.items() if a[1] == dst[1] and a != src] if dst[0] == "<broadcast>" else [])
        for s in targets:
            for d in delays:
                self._seq += 1
                s.inbox.append((self.clock() + d, self._seq, data, src))


class Engine:
    """A real GeckoUdpSocket (or subclass instance) driven iteration by iteration."""

    def __init__(self, sock_obj, net, name, addr):
        self.obj = sock_obj
        self.net = net
        self.mock = net.sock(name, addr)
        sock_obj._socket = self.mock
        self.ev = StepEvent()
        sock_obj._exit_event = self.ev
        sock_obj._last_send_time = net.clock() - 1.0
        self.iterations = 0
        orig_loop_func = sock_obj._loop_func
        ev = self.ev

        def loop_func_then_count():
            try:
                return orig_loop_func()
            finally:
                ev.budget -= 1

        sock_obj._loop_func = loop_func_then_count

    def step(self, n=1):
        self.ev.budget = n
        self.obj._thread_func()
        self.iterations += n


class patched_clock:
    def __init__(self, clock):
        self.clock = clock

    def __enter__(self):
        self.old = _time.monotonic
        _time.monotonic = self.clock
        return self.clock

    def __exit__(self, *a):
        _time.monotonic = self.old


class World:
    """Several stepped engines on one ThreadNet, discrete-event style: always step the engine
    whose local clock is lowest (ties: lowest index), so the engines run 'in parallel'."""

    def __init__(self, chooser=None, latency=0.002):
        from .vloop import Chooser

        self.chooser = chooser or Chooser()
        self.net = ThreadNet(self.chooser, latency)
        self.engines = []
        self.local = []
        self.timers = []  # (when, seq, fn) harness callbacks in virtual time
        self.current = None  # index of the engine being stepped (None = harness code)
        self._tseq = 0

    @property
    def clock(self):
        return self.net.clock

    def add(self, sock_obj, name, addr):
        e = Engine(sock_obj, self.net, name, addr)
        self.engines.append(e)
        self.local.append(self.net.clock())
        return e

    def at(self, when, fn):
        self._tseq += 1
        self.timers.append((when, self._tseq, fn))

    def now(self):
        return min(self.local) if self.local else self.net.clock()

    def run_until(self, t, pred=None, max_iter=2_000_000):
        n = 0
        with patched_clock(self.net.clock):
            while True:
                i = min(range(len(self.engines)), key=lambda k: (self.local[k], k))
                lt = self.local[i]
                due = [x for x in self.timers if x[0] <= lt]
                if due:
                    x = min(due, key=lambda x: (x[0], x[1]))
                    self.timers.remove(x)
                    self.net.clock.t = max(x[0], 0)
                    x[2]()
                    continue
                if lt >= t:
                    break
                if pred is not None and pred():
                    return True
                self.net.clock.t = lt
                self.current = i
                try:
                    self.engines[i].step(1)
                finally:
                    self.current = None
                self.local[i] = max(self.net.clock(), lt + 1e-6)
                n += 1
                if n > max_iter:
                    raise RuntimeError("World.run_until: iteration budget exceeded")
            self.net.clock.t = t
        return pred() if pred is not None else True


class _NoThread:
    def start(self):
        pass

    def join(self, *a):
        pass

    def is_alive(self):
        return False


class TDesc:
    """Descriptor for the blocking GeckoSpa."""

    def __init__(self, spa_id, client_id, dest, name="Spa"):
        self.identifier = spa_id
        self.client_identifier = client_id
        self.name = name
        self.ipaddress, self.port = dest
        self.destination = dest
        self.identifier_as_string = spa_id.decode("latin1")


class TRig:
    """The blocking GeckoSpa against the real simulator, both engines stepped in virtual time.
    The ping thread is not started; `ping()` performs one iteration of its body."""

    CLIENT_ADDR = ("10.0.0.2", 50001)

    def __init__(self, chooser=None, snapshot=None, peer_cls=None, fates=None):
        from . import lib
        from .peers import SPA_ADDR, SPA_ID, SimPeer
        from geckolib.spa import GeckoSpa

        lib.reset_library()
        self.world = World(chooser)
        self.peer = (peer_cls or SimPeer)(snapshot)
        self.sim_engine = self.world.add(self.peer.sim._socket, "sim", SPA_ADDR)
        self.peer.addr = SPA_ADDR
        self.world.net.fates = fates
        with patched_clock(self.world.clock):
            self.spa = GeckoSpa(TDesc(SPA_ID, b"IOSgeckomc-0001", SPA_ADDR))
        self.spa.open = lambda: None
        self.spa._ping_thread = _NoThread()
        self.engine = self.world.add(self.spa, "client", self.CLIENT_ADDR)

    def start(self):
        with patched_clock(self.world.clock):
            self.spa.start_connect()

    def connect(self, timeout=40.0, early=None):
        """early = (k, datagram): the datagram arrives from the spa right after the client's k-th datagram."""
        self.start()
        t0 = self.world.now()
        self.early_injected = False
        if early is not None:
            k, datagram = early[0], early[1]
            delay = early[2] if len(early) > 2 else 0.0
            self.world.run_until(t0 + timeout, pred=lambda: self.spa._is_connected or len(self.client_sent) >= k)
            if not self.spa._is_connected and delay:
                self.world.run_until(self.world.now() + delay, pred=lambda: self.spa._is_connected)
            if not self.spa._is_connected:
                self.inject(datagram)
                self.early_injected = True
        self.world.run_until(t0 + timeout, pred=lambda: self.spa._is_connected)
        return self.spa._is_connected

    def ping(self):
        with patched_clock(self.world.clock):
            self.spa.queue_send(self.spa._ping_handler, self.spa.sendparms)
            self.spa.refresh()

    def run_for(self, dt, pred=None):
        return self.world.run_until(self.world.now() + dt, pred)

    def inject(self, data, src=None):
        """A datagram from the spa's address into the client's socket (subject to fates)."""
        from .peers import SPA_ADDR

        self.world.net.clock.t = self.world.now()
        self.world.net.send(src or SPA_ADDR, self.CLIENT_ADDR, data)

    @property
    def client_sent(self):
        return self.engine.mock.sent
