"""E1 - VLoop: a deterministic, virtual-time asyncio event loop whose nondeterminism is owned.

* time() is a virtual clock; time.monotonic is redirected to it while the loop is `running()`.
* ready callbacks run strictly FIFO (that is what asyncio guarantees);
* the nondeterminism of a real loop - which of several timers that are due (almost) together
  fires first, i.e. the relative phase/jitter of the library's polling tasks and of datagram
  arrivals - is a *choice point* ("timer"): candidates are the live timers whose deadline lies
  within `window` seconds of the earliest one, ordered by (deadline, creation sequence); index 0
  is the default, any other index is a deviation.  A chosen later timer fires at its own deadline
  (the clock advances to it), the ones it overtook fire late - exactly what jitter does.
* every choice goes through a Chooser that replays a recorded prefix and records the trace;
  meeting a different kind/arity while replaying a prefix is a hard harness error.
"""
from __future__ import annotations

import asyncio
import contextlib
import gc
import heapq
import threading
import time as _time_mod
from asyncio import events

from .core import HarnessError

_REAL_MONOTONIC = _time_mod.monotonic


class ReplayDivergence(HarnessError):
    pass


class Chooser:
    """Replays `prefix` (list of (kind, n, choice)), then always answers 0. Records the trace."""

    def __init__(self, prefix=()):
        self.prefix = [tuple(p) for p in prefix]
        self.trace = []

    def choose(self, kind, n):
        if n <= 1:
            return 0
        i = len(self.trace)
        c = 0
        if i < len(self.prefix):
            pk, pn, c = self.prefix[i]
            if pk != kind or pn != n:
                raise ReplayDivergence(
                    f"choice #{i}: recorded ({pk},{pn}) but execution offers ({kind},{n})"
                )
            if not (0 <= c < n):
                raise ReplayDivergence(f"choice #{i}: {c} out of range {n}")
        self.trace.append((kind, n, c))
        return c

    @property
    def deviations(self):
        return sum(1 for _, _, c in self.trace if c)


class VLoop(asyncio.BaseEventLoop):
    def __init__(self, chooser=None, window=0.0, start=1000.0, timer_choice=None):
        super().__init__()
        self._vtime = float(start)
        self._vseq = 0
        self._vtimers = []  # heap of [when, seq, handle]
        self.chooser = chooser or Chooser()
        self.window = window
        # timer_choice(handle) -> bool: may this timer take part in a 'timer' choice point?
        self.timer_choice = timer_choice
        self.exceptions = []
        self.set_exception_handler(self._on_exception)
        self.net = None
        self.steps = 0
        self.timer_pops = 0
        self._in_running = False
        self.timer_choices_enabled = True  # harness may switch tie exploration off for set-up phases
        # asyncio moves EVERY timer that is due into the ready queue in one iteration, so callbacks of two timers
        # that expire together run back to back, BEFORE anything the first one schedules with call_soon (e.g. the
        # wake-up of a lock waiter).  Default here: one timer per iteration; with batch choices on, each further
        # candidate (same window as the 'timer' choice) joins the batch - choice kind 'batch' (0 = alone, 1 = all).
        self.batch_choices_enabled = False
        # a loaded host: every timer wake-up is late by `stall` seconds (the clock has moved on by that much when the
        # callback runs) - code that counts polls instead of reading the clock drifts under it
        self.stall = 0.0

    # ---- clock / scheduling ---------------------------------------------------------
    def time(self):
        return self._vtime

    def call_at(self, when, callback, *args, context=None):
        if when is None:
            raise TypeError("when cannot be None")
        self._check_closed()
        timer = events.TimerHandle(when, callback, args, self, context)
        self._vseq += 1
        heapq.heappush(self._vtimers, [when, self._vseq, timer])
        timer._scheduled = True
        return timer

    def _timer_handle_cancelled(self, handle):
        pass

    def _process_events(self, event_list):  # no selector
        pass

    def _write_to_self(self):
        pass

    def _on_exception(self, loop, context):
        self.exceptions.append(
            {
                "message": context.get("message"),
                "exception": repr(context.get("exception")),
                "task": getattr(context.get("task") or context.get("future"), "get_name", lambda: None)(),
            }
        )

    async def create_datagram_endpoint(self, protocol_factory, local_addr=None, remote_addr=None, **kw):
        if self.net is None:
            raise HarnessError("create_datagram_endpoint without a VNet")
        return self.net.create_endpoint(protocol_factory, local_addr, remote_addr, **kw)

    # ---- running ------------------------------------------------------------------
    @contextlib.contextmanager
    def running(self):
        if self._in_running:
            yield self
            return
        old_loop = events._get_running_loop()
        events._set_running_loop(None)
        events._set_running_loop(self)
        self._thread_id = threading.get_ident()
        old_mono = _time_mod.monotonic
        _time_mod.monotonic = self.time
        self._in_running = True
        try:
            yield self
        finally:
            self._in_running = False
            _time_mod.monotonic = old_mono
            self._thread_id = None
            events._set_running_loop(None)
            if old_loop is not None:
                events._set_running_loop(old_loop)

    def _live_timers(self):
        while self._vtimers and self._vtimers[0][2]._cancelled:
            ent = heapq.heappop(self._vtimers)
            ent[2]._scheduled = False
        return self._vtimers

    def next_timer_at(self):
        t = self._live_timers()
        return t[0][0] if t else None

    def step(self, horizon=float("inf")):
        """Run one ready callback, or move one due timer to the ready queue. False = nothing
        to do at or before `horizon`."""
        if self._ready:
            h = self._ready.popleft()
            if not h._cancelled:
                h._run()
            h = None
            self.steps += 1
            return True
        timers = self._live_timers()
        if not timers:
            return False
        when0 = timers[0][0]
        if when0 > horizon:
            return False
        ent = None
        if len(timers) > 1 and self.timer_choices_enabled:
            lim = when0 + self.window
            cands = sorted(
                (e for e in timers if e[0] <= lim and e[0] <= horizon and not e[2]._cancelled),
                key=lambda e: (e[0], e[1]),
            )
            if self.timer_choice is not None and len(cands) > 1:
                cands = [cands[0]] + [e for e in cands[1:] if self.timer_choice(e[2])]
            if len(cands) > 1:
                ent = cands[self.chooser.choose("timer", len(cands))]
        if ent is None or ent is timers[0]:
            ent = heapq.heappop(timers)
        else:
            timers.remove(ent)
            heapq.heapify(timers)
        if ent[0] > self._vtime:
            self._vtime = ent[0]
        if self.stall:
            self._vtime += self.stall
        ent[2]._scheduled = False
        self._ready.append(ent[2])
        self.timer_pops += 1
        if self.batch_choices_enabled and self.timer_choices_enabled:
            lim = when0 + self.window
            timers = self._live_timers()
            cands = sorted((e for e in timers if e[0] <= lim and e[0] <= horizon and not e[2]._cancelled),
                           key=lambda e: (e[0], e[1]))
            if self.timer_choice is not None:
                cands = [e for e in cands if self.timer_choice(e[2])]
            # 0 = this timer alone; 1 = every candidate joins the batch, in deadline order (what asyncio does when the
            # iteration starts a little late)
            if cands and self.chooser.choose("batch", 2) == 1:
                for e in cands:
                    timers.remove(e)
                    if e[0] > self._vtime:
                        self._vtime = e[0]
                    e[2]._scheduled = False
                    self._ready.append(e[2])
                    self.timer_pops += 1
                heapq.heapify(timers)
        return True

    def run_until(self, t=None, pred=None, max_steps=5_000_000):
        """Step until virtual time t is reached (all work at or before t done), or pred() holds."""
        horizon = float("inf") if t is None else t
        n = 0
        with self.running():
            while True:
                if pred is not None and pred():
                    return True
                if not self.step(horizon):
                    break
                n += 1
                if n > max_steps:
                    raise HarnessError(f"run_until: more than {max_steps} steps")
            if t is not None and self._vtime < t:
                self._vtime = t
        return pred() if pred is not None else True

    def run_steps(self, n):
        """Exactly n loop steps (ready callbacks / timer pops); returns how many were possible."""
        done = 0
        with self.running():
            while done < n and self.step():
                done += 1
        return done

    def run_for(self, dt, pred=None):
        return self.run_until(self._vtime + dt, pred)

    def run_ready(self):
        """Drain the ready queue only (no time passes)."""
        with self.running():
            while self._ready:
                self.step(-1.0)

    def run_coro(self, coro, timeout=None):
        """Run a coroutine to completion on this loop (harness convenience)."""
        with self.running():
            task = self.create_task(coro, name="HARNESS:main")
        self.run_until(None if timeout is None else self._vtime + timeout, task.done)
        if not task.done():
            raise HarnessError("run_coro: coroutine did not finish before the horizon")
        return task.result()

    def shutdown(self):
        """Cancel and drain every task, collect GC-timed exception reports, close."""
        with self.running():
            for _ in range(50):
                tasks = [t for t in asyncio.all_tasks(self) if not t.done()]
                if not tasks:
                    break
                for t in tasks:
                    t.cancel()
                for _ in range(10000):
                    if not self._ready:
                        break
                    self.step(-1.0)
            leftover = [t.get_name() for t in asyncio.all_tasks(self) if not t.done()]
            for t in asyncio.all_tasks(self):
                if t.done() and not t.cancelled():
                    t.exception()  # mark retrieved; harnesses read task results themselves
        self._vtimers.clear()
        self._ready.clear()
        gc.collect(1)
        if not self.is_closed():
            self.close()
        return leftover


def all_tasks(loop):
    return asyncio.all_tasks(loop)
