"""Rigs: the whole async stack (manager -> locator -> spa -> facade) on VLoop/VNet against SimPeer,
and smaller seams (bare protocol + consumers)."""
from __future__ import annotations

from . import lib
from .peers import SPA_ADDR, SPA_ID, ModelSpa, SimPeer
from .vloop import Chooser, VLoop
from .vnet import VNet

from geckolib import GeckoAsyncSpaMan, GeckoSpaEvent, GeckoSpaState  # noqa: E402

CLIENT_UUID = "geckomc-0001"
SPA_ID_STR = SPA_ID.decode("latin1")


class Man(GeckoAsyncSpaMan):
    """Concrete manager that records every event with the state visible at delivery."""

    def __init__(self, loop, **kw):
        kw.setdefault("spa_identifier", SPA_ID_STR)
        kw.setdefault("spa_address", SPA_ADDR[0])
        kw.setdefault("spa_name", "Spa")
        super().__init__(CLIENT_UUID, **kw)
        self._loop = loop
        self.events = []  # (t, event, spa_state, has_facade, status_text)
        self.on_event = None

    async def handle_event(self, event, **kwargs):
        self.events.append(
            (
                self._loop.time(),
                event,
                self.spa_state,
                self._facade is not None,
                self._status_sensor.state if self._status_sensor else None,
            )
        )
        if self.on_event is not None:
            r = self.on_event(event, kwargs)
            if r is not None:
                await r


class Rig:
    def __init__(self, chooser=None, snapshot=None, window=0.0, model=False, timer_choice=None, **man_kw):
        lib.reset_library()
        self.chooser = chooser or Chooser()
        self.loop = VLoop(self.chooser, window=window, timer_choice=timer_choice)
        self.loop.batch_choices_enabled = window > 0  # timers due together may also run as one asyncio batch
        self.net = VNet(self.loop)
        self.peer = (ModelSpa if model else SimPeer)(snapshot)
        self.net.add_peer(SPA_ADDR, self.peer)
        with self.loop.running():
            self.man = Man(self.loop, **man_kw)
        self.entered = False

    def enter(self):
        with self.loop.running():
            t = self.loop.create_task(self.man.__aenter__(), name="HARNESS:enter")
        self.loop.run_until(None, t.done)
        t.result()
        self.entered = True
        self.pump = next((x for x in self.man._tasks if x.get_name() == "SPAMAN:Sequence Pump"), None)

    def run_until_state(self, state, timeout):
        return self.loop.run_for(timeout, lambda: self.man.spa_state == state)

    def connect(self, timeout=120.0):
        if not self.entered:
            self.enter()
        return self.run_until_state(GeckoSpaState.CONNECTED, timeout)

    def call(self, coro, timeout=None, name="HARNESS:call"):
        with self.loop.running():
            t = self.loop.create_task(coro, name=name)
        self.loop.run_until(None if timeout is None else self.loop.time() + timeout, t.done)
        return t

    def spawn(self, coro, name="HARNESS:spawn"):
        with self.loop.running():
            return self.loop.create_task(coro, name=name)

    def exit(self):
        t = self.call(self.man.__aexit__(None, None, None), timeout=30.0, name="HARNESS:exit")
        return t

    def close(self):
        return self.loop.shutdown()

    @property
    def spa(self):
        return self.man._spa

    @property
    def facade(self):
        return self.man._facade
