"""Helpers around the library under test: resetting module state, quiet simulator, snapshots, packs."""
from __future__ import annotations

import glob
import importlib
import logging
import os

from . import core

core.use_repo()

import geckolib  # noqa: E402
import geckolib.config as gconfig  # noqa: E402
from geckolib.utils import simulator as _simmod  # noqa: E402
from geckolib.utils.shared_command import GeckoCmd  # noqa: E402
from geckolib.utils.snapshot import GeckoSnapshot  # noqa: E402

SNAPDIR = os.path.join(core.REPO, "tests", "snapshots")
PACKDIR = os.path.join(core.REPO, "src", "geckolib", "driver", "packs")


# ---- logging: collect ERROR records of the library instead of printing -----------------
class _Collect(logging.Handler):
    def __init__(self):
        super().__init__(level=logging.ERROR)
        self.records = []

    def emit(self, record):
        try:
            msg = record.getMessage()
        except Exception:  # pragma: no cover
            msg = str(record.msg)
        exc = None
        if record.exc_info and record.exc_info[1] is not None:
            exc = repr(record.exc_info[1])
        self.records.append((record.name, record.levelname, msg, exc))


LOG = _Collect()


def quiet_logging():
    logging.disable(logging.NOTSET)
    root = logging.getLogger()
    for h in list(root.handlers):
        root.removeHandler(h)
    root.addHandler(LOG)
    root.setLevel(logging.ERROR)
    lg = logging.getLogger("geckolib")
    lg.setLevel(logging.ERROR)
    logging.getLogger("asyncio").setLevel(logging.CRITICAL)


quiet_logging()

# the simulator print()s on every command; silence it at module level
_simmod.print = lambda *a, **k: None

_IDLE = gconfig._GeckoIdleConfig()
# the settings, read off the two shipped tables themselves (NOT the library's own member list, which the code under
# check iterates - and could exhaust or shorten)
SETTINGS = tuple(sorted({k for c in (gconfig._GeckoActiveConfig, gconfig._GeckoIdleConfig) for k in vars(c) if k.isupper()}))
if len(SETTINGS) < 10:
    raise RuntimeError(f"geckomc: only {len(SETTINGS)} settings found in the configuration tables")


def reset_library():
    """Module-level mutable state back to import-time values."""
    for m in SETTINGS:
        setattr(gconfig.GeckoConfig, m, getattr(_IDLE, m))
    gconfig.ConfigChange = None
    LOG.records.clear()


def config_values():
    return {m: getattr(gconfig.GeckoConfig, m) for m in SETTINGS}


# ---- snapshots ---------------------------------------------------------------------------
_SNAP_CACHE = {}


def snapshot_files():
    return sorted(glob.glob(os.path.join(SNAPDIR, "*.snapshot")))


def load_snapshot(path):
    if path not in _SNAP_CACHE:
        snaps = GeckoSnapshot.parse_log_file(path)
        if len(snaps) != 1:
            raise core.HarnessError(f"{path}: {len(snaps)} snapshots")
        _SNAP_CACHE[path] = snaps[0]
    return _SNAP_CACHE[path]


def load_snapshots(path):
    """All snapshots a file parses to (some shipped files hold several)."""
    key = ("all", path)
    if key not in _SNAP_CACHE:
        _SNAP_CACHE[key] = GeckoSnapshot.parse_log_file(path)
    return _SNAP_CACHE[key]


def default_snapshot():
    return load_snapshot(os.path.join(SNAPDIR, "default.snapshot"))


def make_simulator(snapshot=None):
    """The real GeckoSimulator, constructed without touching logging/stdout, not started
    (no socket, no thread)."""
    orig = GeckoCmd._init_logging
    GeckoCmd._init_logging = lambda self: None
    try:
        sim = _simmod.GeckoSimulator()
    finally:
        GeckoCmd._init_logging = orig
    if snapshot is not None:
        sim.set_snapshot(snapshot)
    return sim


# ---- pack tables -------------------------------------------------------------------------
def pack_module_names():
    return sorted(
        os.path.basename(f)[:-3]
        for f in glob.glob(os.path.join(PACKDIR, "*.py"))
        if not f.endswith("__init__.py")
    )


def pack_module(name):
    return importlib.import_module(f"geckolib.driver.packs.{name}")


def platforms():
    """{platform: {'cfg': [versions], 'log': [versions]}} from the shipped file names."""
    out = {}
    for n in pack_module_names():
        if "-cfg-" in n:
            p, v = n.rsplit("-cfg-", 1)
            out.setdefault(p, {"cfg": [], "log": []})["cfg"].append(int(v))
        elif "-log-" in n:
            p, v = n.rsplit("-log-", 1)
            out.setdefault(p, {"cfg": [], "log": []})["log"].append(int(v))
        else:
            out.setdefault(n, {"cfg": [], "log": []})
    for p in out.values():
        p["cfg"].sort()
        p["log"].sort()
    return out


# ---- declarations: capture the raw constructor arguments of every accessor ----------------------
_DECL_INSTALLED = False


def capture_declarations():
    """Wrap GeckoStructAccessor.__init__ (from outside) so that every accessor remembers the raw
    declaration it was built from (type, pos, bitpos, items, size, maxitems, rw) - the reference
    codec works from that, not from the fields accessor.py derives."""
    global _DECL_INSTALLED
    if _DECL_INSTALLED:
        return
    from geckolib.driver import accessor as amod

    orig = amod.GeckoStructAccessor.__init__

    def init(self, struct_, tag, pos, type, bitpos, items, size, maxitems, rw):
        self._decl = dict(tag=tag, pos=pos, type=type, bitpos=bitpos,
                          items=(items.split("|") if isinstance(items, str) else (list(items) if items is not None else None)),
                          size=size, maxitems=maxitems, rw=rw, cls=self.__class__.__name__)
        orig(self, struct_, tag, pos, type, bitpos, items, size, maxitems, rw)

    amod.GeckoStructAccessor.__init__ = init
    _DECL_INSTALLED = True


def table_modules():
    """[(module name, 'cfg'|'log')] of every shipped config/log table module."""
    out = []
    for n in pack_module_names():
        if "-cfg-" in n:
            out.append((n, "cfg"))
        elif "-log-" in n:
            out.append((n, "log"))
    return out


def table_accessors(modname, kind, struct):
    mod = pack_module(modname)
    cls = mod.GeckoConfigStruct if kind == "cfg" else mod.GeckoLogStruct
    obj = cls(struct)
    return obj, obj.accessors
