"""C03 - change notifications fire exactly once, iff the decoded value changed.

 (i)  geometry, per shape (representative shipped item + twins at both block edges), on both real
      structure classes: every patch (offset, len) with offset in [pos-2, pos+width+1], len 1..4,
      x old/new contents: the exact-cover patch with ALL 256^2 (1-byte items) old/new pairs, for 2-byte
      items every single-byte patch with ALL 256^2 pairs of the patched byte x other byte from a
      boundary set and the word patch over boundary-word pairs; other geometries over boundary pairs.
 (ii) every item of every shipped table: one full refresh between two different blocks, and a
      changing + a non-changing single-byte patch on every byte of the block.
 (iii) observer histories: BFS to closure over {watch a, watch a again, watch b, unwatch a, unwatch b,
      unwatch_all, changing update, non-changing update} against a list-without-duplicates model.
 (iv) a refresh through the real transfer code (GeckoAsyncStructure.get / GeckoStructure.retry_request against
      the simulator's segment chain) is ONE update: 2-byte items on every segment boundary of the answer and 1-byte
      items at and just outside both ends, old/new blocks differing in every byte.
Oracle: per observer exactly one call iff reference-decode(old) != reference-decode(new) (temperature:
raw word), arguments (item, decode(old), decode(new)), and inside EVERY callback of the update -
also those of other items - struct.status_block already is the new block.
"""
from __future__ import annotations

import itertools
import random
from collections import deque

from .. import core, lib
from ..refmodels.bitfield import Field
from .c02 import Host, _twin, field_of, shape_key, temp_ref

LEVEL = "model_checking"

lib.capture_declarations()

from geckolib.driver import accessor as amod  # noqa: E402

BOUND_B = [0x00, 0x01, 0x7F, 0x80, 0xAA, 0xFE, 0xFF]


def ref_value(f, decl, blk, units=None):
    if decl["cls"] == "GeckoTempStructAccessor":
        return ("T", f.raw(blk))
    return f.decode(blk)


def lib_value_matches(decl, f, blk, got, units_items, units_field):
    """What the library must hand to observers for block blk."""
    if decl["cls"] == "GeckoTempStructAccessor":
        unit = units_items[units_field.raw(blk)] if units_field.raw(blk) < len(units_items) else "Unknown"
        return got == temp_ref(f.raw(blk), unit)
    return got == f.decode(blk)


class Watch:
    def __init__(self, struct):
        self.struct = struct
        self.calls = []
        self.expect_block = None
        self.stale = 0

    def cb(self, name):
        def f(sender, old, new):
            if self.struct.status_block != self.expect_block:
                self.stale += 1
            self.calls.append((name, sender, old, new))
        return f


def _geometry_job(job):
    d, seed, quick = job
    n = 0
    out = None
    width = Field(d["type"], 0, d["bitpos"], d["size"], d["maxitems"]).width
    is_temp = d["cls"] == "GeckoTempStructAccessor"
    for which in ("sync", "asyn"):
        for pos in sorted({d["pos"], 0, 1024 - width}):
            host = Host()
            st = getattr(host, which)
            dd = dict(d, pos=pos)
            f = field_of(dd)
            cls = getattr(amod, d["cls"])
            acc = _twin(cls, st, dd, pos)
            # a neighbour item on the same bytes (plain byte view of the first byte) to observe ordering
            nb = amod.GeckoByteStructAccessor(st, "Neighbour", pos, "ALL")
            upos = 600 if pos < 500 else 100
            uacc = amod.GeckoEnumStructAccessor(st, "TempUnits", upos, None, ["F", "C"], None, None, "ALL")
            st.accessors = {"item": acc, "nb": nb, "TempUnits": uacc}
            uf = Field("Enum", upos, None, None, None, ["F", "C"])
            w = Watch(st)
            acc.watch(w.cb("item"))
            nb.watch(w.cb("nb"))
            rnd = random.Random(seed + pos)
            base = bytes(rnd.randrange(256) for _ in range(1024))
            base = base[:upos] + bytes([rnd.randrange(2)]) + base[upos + 1:]

            def one(old_blk, offset, seg):
                nonlocal n, out
                n += 1
                st.set_status_block(old_blk)
                new_blk = old_blk[:offset] + seg + old_blk[offset + len(seg):]
                w.expect_block = new_blk
                del w.calls[:]
                w.stale = 0
                st.replace_status_block_segment(offset, seg)
                if st.status_block != new_blk:
                    out = ("block", f"patch ({offset},{seg.hex()}) did not produce the patched block")
                    return False
                mine = [c for c in w.calls if c[0] == "item"]
                ro, rn = ref_value(f, dd, old_blk), ref_value(f, dd, new_blk)
                exp = 1 if ro != rn else 0
                if len(mine) != exp:
                    out = ("count", f"pos {pos} field {old_blk[pos:pos+f.width].hex()}->{new_blk[pos:pos+f.width].hex()} patch "
                                    f"({offset},len {len(seg)}): {len(mine)} notification(s), decoded {ro!r}->{rn!r} so {exp} expected")
                    return False
                if w.stale:
                    out = ("stale-block", f"patch ({offset},len {len(seg)}): {w.stale} callback(s) ran while the structure still "
                                          f"showed the old block")
                    return False
                if mine:
                    _, sender, o, nw = mine[0]
                    # old value is decoded with the units of the NEW block (stored-reading semantics)
                    okn = lib_value_matches(dd, f, new_blk, nw, ["F", "C"], uf)
                    if is_temp:
                        unit = ["F", "C"][uf.raw(new_blk)]
                        oko = o == temp_ref(f.raw(old_blk), unit)
                    else:
                        oko = o == f.decode(old_blk)
                    if sender is not acc or not okn or not oko:
                        out = ("args", f"callback got ({sender!r}, {o!r}, {nw!r}) for {ro!r}->{rn!r}")
                        return False
                return True

            # exact cover, ALL old/new pairs of the first byte (and of the second for words)
            # quick tier: ALL 256^2 pairs on the blocking structure at the shipped position; the twins at the
            # block edges and the awaitable structure (same accessor code, other host class) get boundary pairs
            full_pairs = (not quick) or (which == "sync" and pos == d["pos"])
            rng = range(256) if full_pairs else BOUND_B + [0x0F, 0xF0, 0x55, 0x33]
            for byte_i in range(f.width):
                others = BOUND_B if f.width == 2 else [0]
                for other in others:
                    for a in rng:
                        fo = bytearray(base[pos:pos + f.width])
                        fo[byte_i] = a
                        if f.width == 2:
                            fo[1 - byte_i] = other
                        old_blk = base[:pos] + bytes(fo) + base[pos + f.width:]
                        for b in rng:
                            if not one(old_blk, pos + byte_i, bytes([b])):
                                return n, out, dd
            if f.width == 2:
                words = sorted({0, 1, 0xFF, 0x100, 0x7FFF, 0x8000, 0xFFFE, 0xFFFF, f.mask << f.shift, (f.mask << f.shift) ^ 0xFFFF,
                                (1 << f.shift), (1 << f.shift) - 1 & 0xFFFF})
                for a in words:
                    old_blk = base[:pos] + a.to_bytes(2, "big") + base[pos + 2:]
                    for b in words:
                        if not one(old_blk, pos, b.to_bytes(2, "big")):
                            return n, out, dd
            if is_temp:
                # one update (full refresh) that flips the unit setting: alone (stored reading unchanged -> silent) and together
                # with a reading change that happens to decode to the same number in the other unit (must notify)
                for u_old in (0, 1):
                    for raw_old, raw_new in ((540, 540), (0, 0), (65535, 65535), (180, 900), (900, 180), (540, 541), (320, 0)):
                        ob = base[:upos] + bytes([u_old]) + base[upos + 1:]
                        ob = ob[:pos] + raw_old.to_bytes(2, "big") + ob[pos + 2:]
                        nbk = ob[:upos] + bytes([1 - u_old]) + ob[upos + 1:]
                        nbk = nbk[:pos] + raw_new.to_bytes(2, "big") + nbk[pos + 2:]
                        if not one(ob, 0, nbk):
                            return n, out, dd
                        lo_, hi_ = min(pos, upos), max(pos + 2, upos + 1)
                        if not one(ob, lo_, nbk[lo_:hi_]):
                            return n, out, dd
            # every patch geometry around the item, boundary contents
            for offset in range(max(0, pos - 2), min(1024, pos + f.width + 2)):
                for ln in range(1, 5):
                    if offset + ln > 1024:
                        continue
                    for a in BOUND_B:
                        old_blk = base[:max(0, pos - 2)] + bytes([a]) * (min(1024, pos + f.width + 4) - max(0, pos - 2)) + base[min(1024, pos + f.width + 4):]
                        old_blk = old_blk[:upos] + base[upos:upos + 1] + old_blk[upos + 1:] if not (max(0, pos - 2) <= upos < pos + f.width + 4) else old_blk
                        for b in BOUND_B:
                            if not one(old_blk, offset, bytes([b]) * ln):
                                return n, out, dd
    return n, out, d


def _table_job(job):
    modname, kind, seed = job
    n = 0
    bad = []
    for which in ("sync", "asyn"):
        host = Host()
        st = getattr(host, which)
        _, accs = lib.table_accessors(modname, kind, st)
        units = accs.get("TempUnits")
        if units is None and any(a._decl["cls"] == "GeckoTempStructAccessor" for a in accs.values()):
            plat = modname.rsplit("-log-", 1)[0] if kind == "log" else modname.rsplit("-cfg-", 1)[0]
            for c, k in lib.table_modules():
                if k == "cfg" and c.rsplit("-cfg-", 1)[0] == plat:
                    _, cs = lib.table_accessors(c, "cfg", st)
                    if "TempUnits" in cs:
                        units = cs["TempUnits"]
                        break
        st.accessors = dict(accs)
        if units is not None:
            st.accessors["TempUnits"] = units
        fields = {tag: (field_of(a._decl), a._decl) for tag, a in st.accessors.items()}
        w = Watch(st)
        for tag, a in st.accessors.items():
            a.watch(w.cb(tag))
        rnd = random.Random(seed * 31 + len(modname))
        A = bytes(rnd.randrange(256) for _ in range(1024))
        B = bytes((x ^ (1 + rnd.randrange(255))) for x in A)

        def check(old_blk, offset, seg, what):
            nonlocal n
            n += 1
            st.set_status_block(old_blk)
            new_blk = old_blk[:offset] + seg + old_blk[offset + len(seg):]
            w.expect_block = new_blk
            del w.calls[:]
            w.stale = 0
            st.replace_status_block_segment(offset, seg)
            got = {}
            for name, sender, o, nw in w.calls:
                got[name] = got.get(name, 0) + 1
            for tag, (f, d) in fields.items():
                exp = 1 if ref_value(f, d, old_blk) != ref_value(f, d, new_blk) else 0
                if got.get(tag, 0) != exp:
                    bad.append((("count", f"{what}: item {tag} notified {got.get(tag, 0)} time(s), decoded "
                                          f"{ref_value(f, d, old_blk)!r}->{ref_value(f, d, new_blk)!r}"), tag))
                    return False
            if w.stale:
                bad.append((("stale-block", f"{what}: {w.stale} callbacks saw the old block"), "-"))
                return False
            return True

        if not check(A, 0, B, "full refresh"):
            continue
        if units is not None:
            uf = field_of(units._decl)
            A2 = uf.put_raw(A, 0)
            A3 = uf.put_raw(A, 1)
            if not check(A2, 0, A3, "full refresh that only flips the temperature unit"):
                continue
            if not check(A3, 0, A2, "full refresh that only flips the temperature unit back"):
                continue
        if not check(A, 0, A, "identical full refresh"):
            continue
        for pos in range(1024):
            if not check(A, pos, bytes([A[pos] ^ 0xFF]), f"byte {pos} flipped"):
                break
            if not check(A, pos, A[pos:pos + 1], f"byte {pos} rewritten unchanged"):
                break
    return n, bad


# ---- (iii) observer histories -------------------------------------------------------------------
OPS = ["watch a", "watch b", "unwatch a", "unwatch b", "unwatch_all", "update changing", "update same",
       # watch/unwatch calls made from INSIDE a notification (observer a does it in its callback): a client that
       # drops an entity when a value changes
       "update changing; a: unwatch a", "update changing; a: unwatch b", "update changing; a: unwatch_all",
       # an update made from INSIDE a notification (observer a patches another, always-watched, item Y elsewhere in the
       # block - what the simulator's set-value delegate does when an observer writes an item)
       "update changing; a: update Y"]


def _observer_bfs(which):
    def build(hist):
        host = Host()
        st = getattr(host, which)
        acc = amod.GeckoByteStructAccessor(st, "X", 10, "ALL")
        acc_y = amod.GeckoByteStructAccessor(st, "Y", 20, "ALL")
        st.accessors = {"X": acc, "Y": acc_y}
        ycalls = []
        acc_y.watch(lambda sender, old, new: ycalls.append((old, new)))
        yval = [0]
        calls = {"a": 0, "b": 0}
        order = []   # ('call', k) and ('removed', k) in the order they happen during one notification
        armed = []

        class Client:  # observer 'a' is a bound method: every access yields a fresh, equal-but-not-identical object,
            def on_a(self, *x):  # which is how the automation classes register themselves
                calls["a"] += 1
                order.append(("call", "a"))
                if armed:
                    act = armed.pop()
                    if act == "update Y":
                        yval[0] = (yval[0] + 1) % 256
                        st.replace_status_block_segment(20, bytes([yval[0]]))
                    elif act == "unwatch_all":
                        acc.unwatch_all()
                        order.extend(("removed", k) for k in list(model))
                        del model[:]
                    else:
                        k = act[-1]
                        if k in model:
                            acc.unwatch(obs[k])
                            model.remove(k)
                            order.append(("removed", k))

        client = Client()

        class _Obs(dict):
            def __getitem__(self, k):
                return client.on_a if k == "a" else dict.__getitem__(self, k)

        obs = _Obs(b=(lambda *x: (calls.__setitem__("b", calls["b"] + 1), order.append(("call", "b")))))
        model = []
        val = 0
        for op in hist:
            before = dict(calls)
            if op.startswith("watch"):
                k = op[-1]
                acc.watch(obs[k])
                if k not in model:
                    model.append(k)
            elif op.startswith("unwatch_all"):
                acc.unwatch_all()
                model = []
            elif op.startswith("unwatch"):
                k = op[-1]
                acc.unwatch(obs[k])
                model.remove(k)
            elif op.startswith("update changing;"):
                # order-agnostic oracle: an observer registered when the update starts and not removed during the
                # notification is called exactly once; one removed during it is called at most once and never
                # after its removal
                start = list(model)
                del order[:]
                armed.append(op.split(": ")[1])
                val = (val + 1) % 256
                ny, y0 = len(ycalls), yval[0]
                st.replace_status_block_segment(10, bytes([val]))
                fired = not armed
                del armed[:]
                if op.endswith("update Y") and fired and ycalls[ny:] != [(y0, yval[0])]:
                    return None, (f"after {hist}: the update of item Y made from inside observer a's callback notified Y's "
                                  f"observer {ycalls[ny:]}, expected exactly [({y0}, {yval[0]})]")
                if not op.endswith("update Y") and len(ycalls) != ny:
                    return None, f"after {hist}: item Y's observer was called although Y did not change"
                for k in ("a", "b"):
                    n = calls[k] - before[k]
                    removed_at = order.index(("removed", k)) if ("removed", k) in order else None
                    late = removed_at is not None and ("call", k) in order[removed_at:]
                    if k not in start:
                        ok = n == 0
                    elif removed_at is None:
                        ok = n == 1
                    else:
                        ok = n <= 1 and not late
                    if not ok:
                        return None, (f"after {hist}: observer {k} called {n} time(s) in a notification where it was "
                                      f"{'registered' if k in start else 'not registered'} at the start"
                                      f"{', removed during it' if removed_at is not None else ' and never removed'}"
                                      f"{' and called after its removal' if late else ''} (order {order})")
            elif op == "update changing":
                val = (val + 1) % 256
                st.replace_status_block_segment(10, bytes([val]))
                for k in ("a", "b"):
                    if calls[k] - before[k] != (1 if k in model else 0):
                        return None, f"after {hist}: observer {k} called {calls[k]-before[k]} time(s), registered={k in model}"
            elif op == "update same":
                st.replace_status_block_segment(10, bytes([val]))
                if calls != before:
                    return None, f"after {hist}: non-changing update notified observers"
        return (tuple(model), acc.has_observers), None

    init, _ = build(())
    seen = {init: ()}
    q = deque([()])
    trans = 0
    # the abstraction (model list, has_observers) merges states a faulty implementation may keep apart (e.g. a second
    # registration of the same observer), so EVERY sequence of the basic operations up to length 5 is also run as is
    basic = ["watch a", "watch b", "unwatch a", "unwatch b", "unwatch_all", "update changing"]
    for depth in range(1, 6):
        for seq in itertools.product(basic, repeat=depth):
            m = []
            ok = True
            for op in seq:
                if op.startswith("watch"):
                    if op[-1] not in m:
                        m.append(op[-1])
                elif op == "unwatch_all":
                    m = []
                elif op.startswith("unwatch"):
                    if op[-1] not in m:
                        ok = False
                        break
                    m.remove(op[-1])
            if not ok or seq[-1] != "update changing":
                continue
            trans += 1
            ns, err = build(seq)
            if err:
                return len(seen), trans, err
            if ns[1] != bool(ns[0]):
                return len(seen), trans, f"after {seq}: has_observers={ns[1]} with model list {ns[0]}"
    while q:
        h = q.popleft()
        state, _ = build(h)
        for op in OPS:
            if op.startswith("unwatch ") and op[-1] not in state[0]:
                continue
            trans += 1
            ns, err = build(h + (op,))
            if err:
                return len(seen), trans, err
            if ns[1] != bool(ns[0]):
                return len(seen), trans, f"after {h + (op,)}: has_observers={ns[1]} with model list {ns[0]}"
            if ns not in seen:
                seen[ns] = h + (op,)
                q.append(h + (op,))
    return len(seen), trans, None


# ---- (iv) a refresh through the real transfer code is ONE update -------------------------------------
def _refresh_job(job):
    """Fault-free refreshes (start,length) through the real GeckoAsyncStructure.get / GeckoStructure.retry_request
    against the simulator, with watched 2-byte items on every segment boundary of the answer and 1-byte items at
    both ends; old and new block differ in every byte."""
    from . import c01
    kind, pairs = job
    rig = c01.ARig() if kind == "async" else c01.TClient(c01.Chooser())
    st = rig.spa.struct if kind == "async" else rig.st
    new = c01.SPA_BLOCK
    old = c01.CLIENT_BLOCK
    rig.use_blocks(new, old)
    bad = []
    n = 0
    for start, length in pairs:
        accs = {}
        for b in range(start + c01.SEG - 1, start + length - 1, c01.SEG):
            accs[f"W{b}"] = amod.GeckoWordStructAccessor(st, f"W{b}", b, "ALL")
        accs["first"] = amod.GeckoByteStructAccessor(st, "first", start, "ALL")
        accs["last"] = amod.GeckoByteStructAccessor(st, "last", start + length - 1, "ALL")
        if start > 0:
            accs["before"] = amod.GeckoByteStructAccessor(st, "before", start - 1, "ALL")
        if start + length < 1024:
            accs["after"] = amod.GeckoByteStructAccessor(st, "after", start + length, "ALL")
        st.accessors = accs
        calls = []

        def cb(sender, o, v, calls=calls, st=st):
            calls.append((sender.tag, o, v, bytes(st.status_block)))

        for a in accs.values():
            a.watch(cb)
        if kind == "async":
            obs = rig.transfer(start, length, R=1, settle=0.3)
        else:
            obs = rig.transfer(start, length, N=0, fates=None)
        n += 1
        if obs["result"] is not True:
            bad.append((start, length, ("transfer", f"fault-free refresh did not succeed: {obs['result']}")))
            continue
        # the spa may answer with more bytes than asked for (whole segments): the refreshed block is whatever C01
        # accepts - the requested range is the spa's, every other byte is the old or the spa's byte
        expect = bytes(obs["block"])
        if expect[start:start + length] != new[start:start + length] or any(
                expect[i] not in (old[i], new[i]) for i in range(1024)):
            bad.append((start, length, ("transfer", f"refresh ({start},{length}) did not install the spa's bytes (see C01)")))
            continue
        for tag, a in accs.items():
            mine = [c for c in calls if c[0] == tag]
            width = 2 if tag.startswith("W") else 1
            ov = int.from_bytes(old[a.pos:a.pos + width], "big")
            nv = int.from_bytes(expect[a.pos:a.pos + width], "big")
            want = 0 if ov == nv else 1
            if len(mine) != want:
                bad.append((start, length, ("count", f"{kind} refresh ({start},{length}): item at {a.pos} width {width} notified "
                                                     f"{len(mine)} time(s) {[(c[1], c[2]) for c in mine]}, expected {want} ({ov}->{nv})")))
                break
            if mine and (mine[0][1], mine[0][2]) != (ov, nv):
                bad.append((start, length, ("args", f"{kind} refresh ({start},{length}): item at {a.pos} notified "
                                                    f"({mine[0][1]},{mine[0][2]}), expected ({ov},{nv})")))
                break
            if mine and mine[0][3] != expect:
                bad.append((start, length, ("stale", f"{kind} refresh ({start},{length}): observer of the item at {a.pos} read a block "
                                                     f"that is not yet the refreshed block")))
                break
    if kind == "async":
        rig.close()
    return n, bad


def _refresh_pairs(quick):
    pairs = [(0, 1024), (0, 39), (0, 40), (100, 78), (1024 - 117, 117)]
    for start in range(234, 313, 3 if quick else 1):
        pairs.append((start, 117))
    if not quick:
        for start in range(0, 1024 - 200, 7):
            pairs.append((start, 200))
    return pairs


def run(ctx):
    host = Host()
    shapes = {}
    for m, k in lib.table_modules():
        _, acc = lib.table_accessors(m, k, host.sync)
        for tag, a in acc.items():
            d = dict(a._decl)
            d["module"] = m
            shapes.setdefault(shape_key(d), d)
    states = set()
    trans = 0
    jobs = [(d, ctx.seed, ctx.quick) for d in shapes.values()]
    for (n, bad, dd), (d, _, _q) in zip(core.pmap(ctx, _geometry_job, jobs, chunksize=1), jobs):
        trans += n
        states.add(("shape", shape_key(d)))
        if bad:
            ctx.violation(f"C03|geometry|{bad[0]}|{shape_key(d)}", f"shape {shape_key(d)} (e.g. {d['module']}:{d['tag']}): {bad[1]}",
                          {"mode": "geometry", "decl": d, "seed": ctx.seed})
    ctx.set("geometry_updates", trans)
    for d, _, _q in jobs[ctx.seed % len(jobs):][:2]:
        ctx.sample({"geometry_case": {"module": d["module"], "item": d["tag"], "pos": d["pos"], "bitpos": d["bitpos"], "type": d["type"],
                                      "patches": f"offsets {max(0, d['pos']-2)}..{d['pos']+3}, lengths 1..4, all 256x256 old/new bytes on the exact cover"}})
    ctx.log(f"(i) {len(shapes)} shapes: {trans} updates")
    jobs = [(m, k, ctx.seed) for m, k in lib.table_modules()]
    tn = 0
    for (n, bad), job in zip(core.pmap(ctx, _table_job, jobs, chunksize=1), jobs):
        tn += n
        states.add(("table", job[0]))
        for why, tag in bad:
            ctx.violation(f"C03|table|{why[0]}|{job[0]}:{tag}", f"{job[0]}: {why[1]}", {"mode": "table", "module": job[0], "kind": job[1], "seed": ctx.seed})
    ctx.set("table_updates", tn)
    ctx.log(f"(ii) {len(jobs)} tables: {tn} updates")
    trans += tn
    for which in ("sync", "asyn"):
        ns, nt, err = _observer_bfs(which)
        trans += nt
        states.update(("obs", which, i) for i in range(ns))
        ctx.set(f"observer_states_{which}", ns)
        if err:
            ctx.violation(f"C03|observers|{which}", err, {"mode": "observers", "which": which})
    rp = _refresh_pairs(ctx.quick)
    k = max(1, len(rp) // max(1, ctx.workers // 2))
    jobs = [(kind, rp[i:i + k]) for kind in ("async", "threaded") for i in range(0, len(rp), k)]
    rn = 0
    for (n, bad), job in zip(core.pmap(ctx, _refresh_job, jobs, chunksize=1), jobs):
        rn += n
        for start, length, why in bad:
            ctx.violation(f"C03|refresh|{job[0]}|{why[0]}", why[1], {"mode": "refresh", "kind": job[0], "start": start, "length": length})
    states.update(("refresh", p) for p in rp)
    trans += rn
    ctx.set("refreshes_through_transfer_code", rn)
    ctx.log(f"(iv) {rn} refreshes through the real transfer code (both clients)")
    ctx.set("states", len(states))
    ctx.set("transitions", trans)
    ctx.set("traces_validated_against_impl", trans)
    ctx.set("exhaustive", True)
    ctx.sample({"shape": ["GeckoEnumStructAccessor", "Enum", 2, 12, 4, 3], "patch": "(pos+1, 1 byte) all 256x256 old/new",
                "oracle": "1 call iff decoded value differs; args (item, old, new); block already new in every callback"})
    ctx.assume("states = shapes + tables + observer-list states (closure reached); transitions = block updates performed")


def replay(ctx, data):
    if data["mode"] == "geometry":
        n, bad, dd = _geometry_job((data["decl"], data.get("seed", 0), False))
        if bad:
            ctx.violation(f"C03|geometry|{bad[0]}|{shape_key(data['decl'])}", bad[1], data)
    elif data["mode"] == "table":
        n, bad = _table_job((data["module"], data["kind"], data.get("seed", 0)))
        for why, tag in bad:
            ctx.violation(f"C03|table|{why[0]}|{data['module']}:{tag}", why[1], data)
    elif data["mode"] == "refresh":
        n, bad = _refresh_job((data["kind"], [(data["start"], data["length"])]))
        for start, length, why in bad:
            ctx.violation(f"C03|refresh|{data['kind']}|{why[0]}", why[1], data)
    else:
        ns, nt, err = _observer_bfs(data["which"])
        if err:
            ctx.violation(f"C03|observers|{data['which']}", err, data)
    ctx.set("states", 1)
    ctx.set("transitions", 1)
    ctx.set("traces_validated_against_impl", 1)
