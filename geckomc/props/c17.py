"""C17 - active/idle configuration switching is complete and wakes every sleeper.

(a) table: after every sequence of switches (all sequences up to length 4 over {active, idle}) every
    CONFIG_MEMBERS value equals the chosen table's (never a mixture).
(b) sleepers: the real config_sleep / set_config_mode on VLoop: up to 3 sleepers with delays from
    {0, 0.5, 1, 2} and start times from {0, 0.5, 1}, up to 2 switches at times on the same grid (so
    ties with starts and expiries occur), EVERY order of simultaneous timers (unbounded deviations -
    the harness is tiny), then again with asyncio's batching of simultaneous timers as a further choice
    (deviation-bounded; one worker explores one whole plan).  Each sleeper must wake at min(start+delay, first switch at/after its
    start [as ordered by the explored schedule]) and never later than it asked.
(c) facade: on really connected facades of several snapshot configurations, every on/off combination of
    the pumps and blowers (set through partial updates of the spa block): GeckoConfig is the active
    table iff some pump or blower is on.
"""
from __future__ import annotations

import asyncio
import itertools

from .. import core, explore, lib
from ..refmodels.bitfield import Field
from ..rig import Rig
from ..vloop import Chooser, VLoop
from ..vnet import VNet

LEVEL = "model_checking"

import geckolib.config as gconfig  # noqa: E402
from geckolib import GeckoSpaState as S  # noqa: E402

DELAYS = [0.0, 0.5, 1.0, 2.0]
STARTS = [0.0, 0.5, 1.0]
SWITCH_AT = [0.0, 0.5, 1.0, 1.5, 2.0, 2.5, 3.0]
CANCEL_AT = [0.25, 0.5, 0.75, 1.0, 1.25]


def table(active):
    c = gconfig._GeckoActiveConfig() if active else gconfig._GeckoIdleConfig()
    return {m: getattr(c, m) for m in lib.SETTINGS}


def _table_check():
    viol = []
    n = 0
    for L, poison in [(L, p_) for L in range(1, 5) for p_ in (False, True)]:
        for seq in itertools.product((True, False), repeat=L):
            lib.reset_library()
            if poison:
                # whatever the root held before (an application that tuned a time-out, a test that poked it): a switch
                # installs the COMPLETE table
                for k_, m_ in enumerate(lib.SETTINGS):
                    setattr(gconfig.GeckoConfig, m_, 7000 + k_)
            loop = VLoop(Chooser())
            VNet(loop)

            async def go():
                await asyncio.sleep(0)
                t = asyncio.ensure_future(gconfig.config_sleep(100.0))
                await asyncio.sleep(0.01)
                for a in seq:
                    gconfig.set_config_mode(a)
                    got = lib.config_values()
                    exp = table(a)
                    if got != exp:
                        bad = {k: (got[k], exp[k]) for k in exp if got[k] != exp[k]}
                        return f"after switches {seq} the table is a mixture: {bad}"
                t.cancel()
                return None

            r = loop.run_coro(go(), timeout=10)
            loop.shutdown()
            n += 1
            if r:
                viol.append((f"C17|table|mixture", r, {"mode": "table"}))
                return n, viol
    return n, viol


def _sleep_run(ch, sleepers, switches, batch=False, cancels=()):
    """sleepers: ((start, delay),...), switches: (time,...), cancels: ((sleeper index, time),...) - a task that is
    cancelled while it sleeps (a disconnect tears the connection's loops down; the other sleepers live on)"""
    lib.reset_library()
    loop = VLoop(ch, window=0.0)
    loop.batch_choices_enabled = batch  # timers that expire at the same instant may run as one asyncio batch
    VNet(loop)
    t0 = loop.time()
    woke = {}
    started = {}
    sw_done = []
    errors = []

    ROUNDS = 3

    async def sleeper(i, start, delay):
        await asyncio.sleep(start)
        for r in range(ROUNDS):  # library loops sleep again and again on the shared future
            started[(i, r)] = (loop.time() - t0, len(sw_done))
            await gconfig.config_sleep(delay if delay > 0 or r == 0 else 0.5)
            woke[(i, r)] = loop.time() - t0

    async def switcher(k, at, mode):
        await asyncio.sleep(at)
        try:
            gconfig.set_config_mode(mode)
            sw_done.append((loop.time() - t0, mode))
        except AssertionError:
            # the library's own assert (no sleeper has ever created the shared future) is only legitimate when indeed
            # nobody has gone to sleep yet
            errors.append(("assert-before-any-sleeper" if not started else "assert-with-sleepers", at))
            sw_done.append((loop.time() - t0, None))

    async def canceller(i, at):
        await asyncio.sleep(at)
        ts[i].cancel()

    cancelled = {i for i, at in cancels}
    with loop.running():
        ts = [loop.create_task(sleeper(i, s, d), name=f"HARNESS:sleeper{i}") for i, (s, d) in enumerate(sleepers)]
        ts += [loop.create_task(switcher(k, at, k % 2 == 0), name=f"HARNESS:switch{k}") for k, at in enumerate(switches)]
        ts += [loop.create_task(canceller(i, at), name=f"HARNESS:cancel{i}") for i, at in cancels]
    loop.run_for(20.0, lambda: all(t.done() for t in ts))
    why = None
    for t in ts:
        if not t.done():
            why = ("hung", f"{t.get_name()} never finished")
        elif t.cancelled():
            pass
        elif t.exception() is not None:
            why = ("raised", f"{t.get_name()} raised {t.exception()!r}")
    if why is None and any(e[0] == "assert-with-sleepers" for e in errors):
        why = ("switch-failed", f"set_config_mode raised its 'no sleeper yet' assertion at {[e[1] for e in errors if e[0] == 'assert-with-sleepers']} "
                                f"although sleepers had already gone to sleep (started {sorted(started.values())[:3]})")
    if why is None:
        for i, (s, d) in enumerate(sleepers):
            for r in range(ROUNDS):
                if i in cancelled and ((i, r) not in started or (i, r) not in woke):
                    continue  # cancelled before or during this round: nothing is asked of a cancelled sleeper
                st, n_sw_before = started[(i, r)]
                dd = d if d > 0 or r == 0 else 0.5
                # switches that happened after this sleep began, in the order the schedule ran them
                later = [t for (t, m) in sw_done[n_sw_before:] if m is not None]
                exp = min([st + dd] + later[:1])
                if woke[(i, r)] > st + dd + 1e-9:
                    why = ("overslept", f"sleeper {i} round {r} (began {st:.2f}, delay {dd}) woke at {woke[(i, r)]:.2f}")
                elif woke[(i, r)] > exp + 1e-9:
                    # (waking early without a switch is not excluded by the statement and is not reported)
                    why = ("not-woken", f"sleeper {i} round {r} (began {st:.2f}, delay {dd}) woke at {woke[(i, r)]:.2f}, but the mode was "
                                        f"switched at {exp:.2f} (switches {[round(t, 2) for t, m in sw_done]})")
        good = [m for t, m in sw_done if m is not None]
        if good and lib.config_values() != table(good[-1]):
            why = ("table", "table after the last switch is not the chosen one")
    obs = core.digest([sleepers, switches, cancels, sorted(woke.items()), errors])
    loop.shutdown()
    return why, obs, errors


def _sleep_job(job):
    (sleepers, switches), prefix = job[0][:2], job[1]
    batch = len(job[0]) > 2 and bool(job[0][2])
    cancels = tuple(job[0][3]) if len(job[0]) > 3 else ()

    def body(ch):
        why, obs, errors = _sleep_run(ch, sleepers, switches, batch, cancels)
        viol = []
        if why:
            viol.append((f"C17|sleep|{why[0]}" + ("|with-cancelled-sleeper" if cancels else ""),
                         f"sleepers {sleepers} switches {switches}{f' cancelled (sleeper, at) {cancels}' if cancels else ''} "
                         f"order {[c for k, n, c in ch.trace]}: {why[1]}",
                         {"mode": "sleep", "sleepers": [list(s) for s in sleepers], "switches": list(switches), "batch": batch,
                          "cancels": [list(c) for c in cancels],
                          "prefix": [list(p) for p in ch.trace]}))
        return {"violations": viol, "obs": obs, "end": obs, "asserts": len(errors)}

    return explore.run_with(prefix, body)


def _plan_job(job):
    """One worker explores one whole plan: every order of simultaneous timers (unbounded), then the same plan with
    asyncio's batching of simultaneous timers as a further choice (deviation-bounded)."""
    plan, quick = job
    out = {"executions": 0, "batch_executions": 0, "obs": set(), "violations": [], "caps": []}
    st = explore.explore_local(_sleep_job, plan, bound=64, max_execs=20000)
    out["executions"] += st["executions"]
    out["obs"] |= st["obs"]
    out["violations"] += st["violations"]
    if st["capped"]:
        out["caps"].append(f"sleep{plan}: execution cap 20000 hit")
    if plan[1] and not st["violations"] and len(plan) == 2:
        st = explore.explore_local(_sleep_job, plan + (True,), bound=2 if quick else 4, max_execs=20000)
        out["executions"] += st["executions"]
        out["batch_executions"] += st["executions"]
        out["obs"] |= st["obs"]
        out["violations"] += st["violations"]
        if st["capped"]:
            out["caps"].append(f"sleep-batch{plan}: execution cap 20000 hit at bound {st['completed_bound'] + 1}")
    return out


# ---- facade ---------------------------------------------------------------------------------
FACADE_SNAPSHOTS = ["default.snapshot", "inYT-all off-2020-10-23 18_00_45.snapshot", "inYJ-All off-2020-12-18 11_24_09.snapshot",
                    "inXM-Pump 1, 2 and blower running-2020-12-08 19_54_44.snapshot",
                    "inYT-whirlcare-prestige-all-off-2022-02-14 09_04_44.snapshot"]


def _facade_job(snapname):
    import os

    snap = lib.load_snapshot(os.path.join(lib.SNAPDIR, snapname))
    rig = Rig(Chooser(), snapshot=snap)
    if not rig.connect(120.0):
        raise core.HarnessError(f"C17: {snapname} did not connect")
    fac = rig.facade
    devs = list(fac.pumps) + list(fac.blowers)  # the statement's own definition, not the facade's helper
    viol = []
    n = 0
    # the facade has reported its first update (what wait_for_one_update waits for): whatever the table was before, it
    # now follows the devices
    rig.loop.run_for(60.0, lambda: fac._ready)
    if not fac._ready:
        raise core.HarnessError(f"C17: facade of {snapname} never reported its first update")
    on0 = any(bool(d.is_on) for d in devs)
    if devs and lib.config_values() != table(on0):
        viol.append((f"C17|facade|mode-at-connect", f"{snapname}: connected with pumps/blowers on={[bool(d.is_on) for d in devs]} but right "
                     f"after the facade's first update GeckoConfig is not the {'active' if on0 else 'idle'} table",
                     {"mode": "facade", "snapshot": snapname}))
    rig.loop.run_for(2.0)
    if not devs:
        rig.exit(); rig.close()
        return snapname, 0, 0, viol
    fields = []
    for d in devs:
        acc = d._state_sensor.accessor
        f = Field.of(acc)
        if acc.type == "Bool":
            onoff = (1, 0)
        else:
            off = acc.items.index("OFF") if "OFF" in acc.items else 0
            on = next(i for i, x in enumerate(acc.items) if x not in ("OFF", "") and i != off)
            onoff = (on, off)
        fields.append((d, f, onoff))
    for combo in itertools.product((False, True), repeat=len(devs)):
        # move there from the all-off state and from the all-on state (order of the change events differs)
        for base in (False, True):
            for target in ((base,) * len(devs), combo):
                blk = rig.peer.block
                for (d, f, (on, off)), want in zip(fields, target):
                    nb = f.put_raw(blk, on if want else off)
                    if nb != blk:
                        blk = nb
                        seg = blk[f.pos:f.pos + f.width]
                        rig.spa.struct.replace_status_block_segment(f.pos, seg)
                rig.peer.set_block(blk)
            n += 1
            exp_active = any(combo)
            if [bool(d.is_on) for d in devs] != list(combo):
                viol.append((f"C17|facade|device-state", f"{snapname}: devices {[d.key for d in devs]} read {[d.is_on for d in devs]} after setting {combo}",
                             {"mode": "facade", "snapshot": snapname}))
                break
            if lib.config_values() != table(exp_active):
                viol.append((f"C17|facade|mode", f"{snapname}: devices {[d.key for d in devs]} on={combo} but GeckoConfig is "
                             f"{'idle' if exp_active else 'active'} table (or a mixture)", {"mode": "facade", "snapshot": snapname}))
                break
        if viol:
            break
    if not viol:
        # a device changes state while the facade's periodic update is suspended inside one of its own requests (the
        # moment its GETWC leaves): whatever that update decided before, the table follows the devices once it is through
        def put(states):
            blk = rig.peer.block
            for (d, f, (on, off)), want in zip(fields, states):
                nb = f.put_raw(blk, on if want else off)
                if nb != blk:
                    blk = nb
                    rig.spa.struct.replace_status_block_segment(f.pos, blk[f.pos:f.pos + f.width])
            rig.peer.set_block(blk)

        put((False,) * len(devs))
        for want in (True, False, True):
            fired = []

            def tap(now, src, dst, data, want=want):
                if b"GETWC" in data and not fired:
                    fired.append(now)
                    rig.loop.call_soon(put, (want,) + (False,) * (len(devs) - 1))

            prev_tap, rig.net.tap = rig.net.tap, tap
            rig.loop.run_for(140.0, lambda: bool(fired))
            rig.net.tap = prev_tap
            if not fired:
                raise core.HarnessError(f"C17: no facade update of {snapname} within 140 s")
            rig.loop.run_for(3.0)
            n += 1
            if bool(devs[0].is_on) != want:
                raise core.HarnessError(f"C17: device {devs[0].key} did not follow the block")
            if lib.config_values() != table(want):
                viol.append((f"C17|facade|mode-change-during-update", f"{snapname}: {devs[0].key} went {'on' if want else 'off'} while the facade's "
                             f"periodic update was waiting for its watercare reply; 3 s later GeckoConfig is not the "
                             f"{'active' if want else 'idle'} table", {"mode": "facade", "snapshot": snapname}))
                break
    rig.exit()
    rig.close()
    return snapname, len(devs), n, viol


def _reconnect_job(snapname):
    """Non-initial states: (1) a facade created while the process-wide table is ACTIVE (previous facade had a
    pump running, then reset, pump now off) must bring the table back to idle; (2) the same the other way round;
    (3) a table forced from outside is corrected by the facade's next periodic update."""
    import os

    snap = lib.load_snapshot(os.path.join(lib.SNAPDIR, snapname))
    rig = Rig(Chooser(), snapshot=snap)
    viol = []
    if not rig.connect(120.0):
        raise core.HarnessError(f"C17: {snapname} did not connect")
    rig.loop.run_for(2.0)

    def set_devices(on):
        fac = rig.facade
        devs = list(fac.pumps) + list(fac.blowers)
        blk = rig.peer.block
        for d in devs[:1]:
            acc = d._state_sensor.accessor
            f = Field.of(acc)
            if acc.type == "Bool":
                raw = 1 if on else 0
            else:
                off = acc.items.index("OFF") if "OFF" in acc.items else 0
                raw = next(i for i, x in enumerate(acc.items) if x not in ("OFF", "") and i != off) if on else off
            blk = f.put_raw(blk, raw)
            rig.spa.struct.replace_status_block_segment(f.pos, blk[f.pos:f.pos + f.width])
        rig.peer.set_block(blk)
        return bool(devs)

    for first_on in (True, False):
        if not set_devices(first_on):
            break
        if lib.config_values() != table(first_on):
            viol.append(("C17|facade|mode", f"{snapname}: first device {'on' if first_on else 'off'} but table is wrong", {"mode": "reconnect", "snapshot": snapname}))
            break
        # the spa changes while we are away, and the connection is reset
        blk = rig.peer.block
        t = rig.spawn(rig.man.async_reset(), name="HARNESS:reset")
        rig.loop.run_for(5.0, t.done)
        fac_dev_field = None
        # flip the device on the spa side only
        import copy
        snap_f = None
        # (recompute the field from the tables of the snapshot through a throw-away facade-less decode)
        rig.loop.run_for(0.01)
        # wait for the reconnection, then flip through the live facade of the NEW connection
        if not rig.connect(200.0):
            raise core.HarnessError("C17: no reconnection")
        rig.loop.run_for(0.5)
        # new facade: devices still in the old state -> table must (still) match them after its first update
        rig.loop.run_for(130.0)
        if lib.config_values() != table(first_on):
            viol.append(("C17|facade|mode-after-reconnect", f"{snapname}: after a reconnect with the first device "
                         f"{'on' if first_on else 'off'} the table is not the {'active' if first_on else 'idle'} one",
                         {"mode": "reconnect", "snapshot": snapname}))
            break
        # now the device changes state on the new connection
        set_devices(not first_on)
        if lib.config_values() != table(not first_on):
            viol.append(("C17|facade|mode-after-reconnect", f"{snapname}: after a reconnect the device went "
                         f"{'on' if not first_on else 'off'} but the table did not follow",
                         {"mode": "reconnect", "snapshot": snapname}))
            break
        set_devices(first_on)
    if not viol and rig.facade is not None:
        # reset while ACTIVE, pump switched off on the spa while disconnected
        if set_devices(True):
            t = rig.spawn(rig.man.async_reset(), name="HARNESS:reset")
            rig.loop.run_for(5.0, t.done)
            # spa side: all pumps/blowers off (use the snapshot's own block if it was all-off, else clear the first device)
            # the peer block still has the device on; clear it through the reference codec of the accessor we used
            # (field geometry taken from the table module directly)
            mod = lib.pack_module(f"{snap.packtype.lower()}-log-{snap.log_version}")
            from geckolib.driver import GeckoStructure
            accs = mod.GeckoLogStruct(GeckoStructure(lambda *a: None)).accessors
            blk = rig.peer.block
            for key in ("P1", "P2", "P3", "P4", "P5", "BL", "Waterfall"):
                if key in accs:
                    a = accs[key]
                    f = Field.of(a)
                    raw_off = 0 if a.type == "Bool" else (a.items.index("OFF") if "OFF" in a.items else 0)
                    blk = f.put_raw(blk, raw_off)
            rig.peer.set_block(blk)
            if not rig.connect(200.0):
                raise core.HarnessError("C17: no reconnection")
            rig.loop.run_for(130.0)
            fac = rig.facade
            any_on = any(bool(d.is_on) for d in list(fac.pumps) + list(fac.blowers))
            if lib.config_values() != table(any_on):
                viol.append(("C17|facade|mode-after-reconnect", f"{snapname}: facade built while the table was active with every pump/"
                             f"blower now off: table is still {'active' if not any_on else 'idle'} after its periodic update",
                             {"mode": "reconnect", "snapshot": snapname}))
    if not viol and rig.facade is not None:
        # table forced from outside: the next periodic facade update must correct it
        fac = rig.facade
        any_on = any(bool(d.is_on) for d in list(fac.pumps) + list(fac.blowers))
        with rig.loop.running():
            gconfig.set_config_mode(not any_on)
        rig.loop.run_for(260.0)
        if lib.config_values() != table(any_on):
            viol.append(("C17|facade|mode-not-corrected", f"{snapname}: table forced to the wrong mode from outside is not corrected "
                         f"by the facade's periodic update", {"mode": "reconnect", "snapshot": snapname}))
    rig.exit()
    rig.close()
    return snapname, viol


def run(ctx):
    n, viol = _table_check()
    ctx.merge_violations(viol)
    ctx.set("table_switch_sequences", n)
    execs = n
    states = set()
    # sleepers x switches, all tie orders
    plans = []
    for ns in (1, 2, 3):
        sl_sets = list(itertools.combinations_with_replacement(list(itertools.product(STARTS, DELAYS)), ns))
        if ns == 3 and ctx.quick:
            sl_sets = sl_sets[::11]
        for sl in sl_sets:
            for nsw in (0, 1, 2):
                for sw in itertools.combinations(SWITCH_AT, nsw):
                    # a switch before any sleeper has ever run trips the library's own assert: keep one
                    # sleeper starting at 0 so that the shared future exists (reported separately below)
                    if sw and min(s for s, d in sl) > min(sw):
                        continue
                    plans.append((sl, sw))
    # one of two or three sleepers is cancelled in its sleep (its connection is torn down) before a switch: the others
    # still have to be woken by it
    ncancel = 0
    for ns in (2, 3):
        sl_sets = list(itertools.combinations_with_replacement(list(itertools.product(STARTS[:2], DELAYS[2:])), ns))
        for sl in sl_sets:
            for who in range(ns):
                for at in CANCEL_AT if not ctx.quick else CANCEL_AT[::2]:
                    for nsw in (1, 2):
                        for sw in itertools.combinations([t for t in SWITCH_AT if t >= at][:4], nsw):
                            plans.append((sl, sw, False, ((who, at),)))
                            ncancel += 1
    ctx.set("sleep_plans_with_a_cancelled_sleeper", ncancel)
    total = 0
    btotal = 0
    asserts = 0
    pjobs = [(plan, ctx.quick) for plan in plans]
    for res in core.pimap(ctx, _plan_job, pjobs, chunksize=max(1, len(pjobs) // (ctx.workers * 8))):
        total += res["executions"]
        btotal += res["batch_executions"]
        states.update(res["obs"])
        ctx.merge_violations(res["violations"])
        for c in res["caps"]:
            ctx.cap(c)
    ctx.set("sleep_batch_executions", btotal)
    ctx.set("sleep_plans", len(plans))
    ctx.set("sleep_executions", total)
    ctx.log(f"{len(plans)} sleeper/switch plans, all tie orders: {total} executions")
    execs += total
    # facade
    nf = 0
    for snapname, ndev, n, viol in core.pmap(ctx, _facade_job, FACADE_SNAPSHOTS, chunksize=1):
        ctx.merge_violations(viol)
        nf += n
        states.add(("facade", snapname, ndev, n))
        ctx.log(f"facade {snapname}: {ndev} pump/blower devices, {n} on/off combinations x 2 approach orders")
    execs += nf
    ctx.set("facade_combinations", nf)
    for snapname, viol in core.pmap(ctx, _reconnect_job, FACADE_SNAPSHOTS[:3], chunksize=1):
        for v in viol:
            ctx.violation(*v)
        states.add(("reconnect", snapname))
        execs += 1
    ctx.set("reconnect_scenarios", 3)
    ctx.set("states", len(states))
    ctx.set("transitions", execs)
    ctx.set("traces_validated_against_impl", execs)
    ctx.sample({"sleepers": [[0.0, 2.0], [0.5, 0.5]], "switches": [0.5, 1.0], "tie order": "all",
                "oracle": "wake = min(start+delay, first switch after start); table complete after each switch"})
    ctx.assume("a switch issued before any config_sleep ever ran trips the library's own assert (ConfigChange is None); "
               "those plans are excluded - in the real stack the task-tidy loop sleeps before anything can switch")


def replay(ctx, data):
    if data["mode"] == "table":
        ctx.merge_violations(_table_check()[1])
    elif data["mode"] == "sleep":
        res = _sleep_job(((tuple(tuple(s) for s in data["sleepers"]), tuple(data["switches"]), bool(data.get("batch")),
                           tuple(tuple(c) for c in data.get("cancels", ()))),
                          [tuple(p) for p in data["prefix"]]))
        ctx.merge_violations(res["violations"])
    elif data["mode"] == "reconnect":
        for v in _reconnect_job(data["snapshot"])[1]:
            ctx.violation(*v)
    else:
        ctx.merge_violations(_facade_job(data["snapshot"])[3])
    ctx.set("states", 1)
    ctx.set("transitions", 1)
    ctx.set("traces_validated_against_impl", 1)
