"""C19 - snapshot capture/replay round-trip and loadability of shipped snapshots.

 (a) writer = the real GeckoShell.do_snapshot / version_strings on a stub facade, logged through the
     shell's real file-log format into a scratch file, parsed back by GeckoSnapshot.parse_log_file:
     blocks b[i] = (i+k) mod 256 for every k (every byte value at every position class), zeros, ones,
     shipped blocks; version tuples over {0,1,9,10,99,255}; config/log versions; pack names; snapshot
     names over a token alphabet incl. '(', ')', '-', ' '.
 (b) traffic log: the DEBUG log of the real blocking client's handshake against the real simulator
     (stepped engine), for EVERY simulator segment size 4..255 (the segment index is one byte); and the log lines the receiving socket
     writes for STATV segments whose content runs over ALL strings of length <= 3 from
     {', ", \\, newline, NUL, A, <} - parsed back to the transferred bytes.
 (c) every snapshot in tests/snapshots: parse -> simulator.set_snapshot -> served to a real async client on
     the virtual loop -> client block == snapshot bytes, header fields consistent.
 (d) "served unchanged" also holds with the simulator's own unreliability feature on: its loss model's random draws
     are choice points (answer / ignore); all vectors for a 3-segment range, deviation-bounded for the full block, both
     clients; oracle = C01's (success => exactly the snapshot's bytes, failure => block untouched).
"""
from __future__ import annotations

import itertools
import logging
import os
import shutil
import tempfile

from .. import core, lib, stepped
from ..peers import SPA_ADDR, SPA_ID
from ..refmodels import wire
from ..rig import Rig
from ..vloop import Chooser

LEVEL = "exploration"

from geckolib import GeckoSpaState as S  # noqa: E402
from geckolib.driver import GeckoUdpSocket  # noqa: E402
from geckolib.utils.shell import GeckoShell  # noqa: E402
from geckolib.utils.snapshot import GeckoSnapshot  # noqa: E402

FMT = "%(asctime)s %(name)s %(levelname)s %(message)s"  # GeckoCmd.do_logfile


class FileLog:
    """The shell's file logger (same formatter) attached to the library loggers for the duration."""

    def __init__(self, path, level, only=None):
        """only: optional predicate() -> bool deciding whether a record belongs to the logging process
        (used to keep the simulator's own log lines out of the *client's* traffic log)."""
        self.h = logging.FileHandler(path, mode="w")
        if only is not None:
            flt = logging.Filter()
            flt.filter = lambda record: bool(only())
            self.h.addFilter(flt)
        self.h.setLevel(level)
        self.h.setFormatter(logging.Formatter(FMT))
        self.level = level

    def __enter__(self):
        self.lg = logging.getLogger("geckolib")
        self.old = self.lg.level
        self.lg.setLevel(self.level)
        self.lg.addHandler(self.h)
        return self

    def __exit__(self, *a):
        self.lg.removeHandler(self.h)
        self.lg.setLevel(self.old)
        self.h.close()


class _Struct:
    def __init__(self, block):
        self.status_block = block


class _SpaStub:
    def __init__(self, block, en, co, pack, packver, cfg, log, ptype):
        self.revision = "39.0"
        self.intouch_version_en = "{0} v{1}.{2}".format(*en)
        self.intouch_version_co = "{0} v{1}.{2}".format(*co)
        self.pack = pack
        self.version = "{0} v{1}.{2}".format(*packver)
        self.config_number = 7
        self.config_version = cfg
        self.log_version = log
        self.pack_type = ptype
        self.struct = _Struct(block)


class _FacadeStub:
    def __init__(self, spa):
        self.spa = spa


_SHELL = []  # ONE long-lived shell per worker: a user captures one spa after the other in the same session


def _resave(snap, tmp):
    out = os.path.join(tmp, "resaved")
    os.makedirs(out, exist_ok=True)
    try:
        snap.save(out)
        again = GeckoSnapshot.parse_log_file(os.path.join(out, snap.filename))
    except Exception as e:  # noqa
        return f"saving the parsed snapshot and parsing the saved file raised {e!r}"
    finally:
        pass
    if len(again) != 1:
        shutil.rmtree(out, ignore_errors=True)
        return f"the saved snapshot {snap.name!r} reads back as {len(again)} snapshots"
    a = again[0]
    shutil.rmtree(out, ignore_errors=True)
    for label, g, e in (("bytes", a.bytes, snap.bytes), ("pack type", a.packtype, snap.packtype), ("config version", a.config_version, snap.config_version),
                        ("log version", a.log_version, snap.log_version), ("intouch EN", a.intouch_EN, snap.intouch_EN), ("intouch CO", a.intouch_CO, snap.intouch_CO)):
        if g != e:
            return f"the saved snapshot reads back with another {label}"
    return None


def _shell_case(tmp, name, block, en, co, pack, packver, cfg, log):
    path = os.path.join(tmp, "snap.log")
    if not _SHELL:
        _SHELL.append(GeckoShell.__new__(GeckoShell))
    shell = _SHELL[0]
    shell.facade = _FacadeStub(_SpaStub(block, en, co, pack, packver, cfg, log, 10))  # what do_manage does
    with FileLog(path, logging.INFO):
        GeckoShell.do_snapshot(shell, name)
    snaps = GeckoSnapshot.parse_log_file(path)
    if len(snaps) != 1:
        return f"{len(snaps)} snapshots parsed from one capture"
    s = snaps[0]
    try:
        got = (s.bytes, s.name, s.packtype, s.intouch_EN, s.intouch_CO, s.config_version, s.log_version, s.spapack)
    except Exception as e:  # noqa
        return f"parsed snapshot raises {e!r}"
    exp = (block, name, pack, tuple(en), tuple(co), cfg, log, f"{pack} {packver[0]} v{packver[1]}.{packver[2]}")
    for label, g, e in zip(("bytes", "name", "pack type", "intouch EN", "intouch CO", "config version", "log version", "spa pack"), got, exp):
        if g != e:
            if label == "bytes":
                d = [i for i in range(min(len(g), len(e))) if g[i] != e[i]][:4]
                return f"bytes differ (lengths {len(g)}/{len(e)}, first differences at {d})"
            return f"{label} parsed as {g!r}, written {e!r}"
    if name.replace(" ", "").isalnum():
        return _resave(s, tmp)
    return None


def _shell_job(job):
    kind, lo, hi = job
    tmp = tempfile.mkdtemp(prefix="geckomc-c19-", dir="/tmp")
    n = 0
    bad = None
    try:
        base = (bytes(range(256)) * 4)
        if kind == "blocks":
            for k in range(lo, hi):
                blk = bytes((i + k) % 256 for i in range(1024))
                n += 1
                why = _shell_case(tmp, "Heating", blk, (88, 15, 0), (89, 11, 0), "inXM", (186, 3, 0), 9, 9)
                if why:
                    bad = ("block", f"block b[i]=(i+{k}) mod 256: {why}")
                    break
        elif kind == "versions":
            vals = [0, 1, 9, 10, 99, 255]
            combos = list(itertools.product(vals, repeat=3))
            for i in range(lo, min(hi, len(combos))):
                en = combos[i]
                co = combos[-1 - i]
                n += 1
                why = _shell_case(tmp, "v", base, en, co, "inYT", (en[2] * 257 % 65536, en[1], en[0]), en[0], co[0])
                if why:
                    bad = ("versions", f"EN {en} CO {co}: {why}")
                    break
        elif kind == "names":
            toks = ["A", "b", " ", "-", "(", ")", "1", ",", "'"]
            names = [""] + ["".join(t) for n_ in (1, 2, 3) for t in itertools.product(toks, repeat=n_)]
            # words the log format and the parser give a meaning to, as (part of) a user's description
            words = ["DEBUG", "INFO", "WARNING", "ERROR", "SNAPSHOT", "snapshot", "STATV", "geckolib", "Connection found", "Spa pack",
                     "Config version", "intouch version EN", "]", "[", "b'"]
            names += words + [f"{w} pump 1" for w in words] + [f"pump {w}" for w in words] + [f"x{w}y" for w in words]
            for nm in names[lo:hi]:
                n += 1
                if nm.strip() != nm or nm == "":
                    continue
                why = _shell_case(tmp, nm, base, (1, 2, 3), (4, 5, 6), "inYJ", (1, 2, 3), 53, 53)
                if why:
                    bad = ("name", f"snapshot name {nm!r}: {why}")
                    break
        elif kind == "packs":
            for plat in sorted(lib.platforms()):
                name = lib.pack_module(plat).GeckoPack(None).name
                n += 1
                why = _shell_case(tmp, "p", base, (1, 2, 3), (4, 5, 6), name, (300, 1, 2), 1, 2)
                if why:
                    bad = ("pack-name", f"pack {name!r}: {why}")
                    break
    finally:
        shutil.rmtree(tmp, ignore_errors=True)
    return kind, n, bad


# ---- (b) traffic log ----------------------------------------------------------------------------
def _traffic_handshake(segsize):
    tmp = tempfile.mkdtemp(prefix="geckomc-c19-", dir="/tmp")
    try:
        path = os.path.join(tmp, "client.log")
        blk = bytes((5 * i + 11 * (i // 7) + segsize) % 256 for i in range(1024))
        holder = {}
        with FileLog(path, logging.DEBUG, only=lambda: holder.get("rig") is None or holder["rig"].world.current != 0):
            rig = stepped.TRig(Chooser())
            holder["rig"] = rig  # engine 0 is the simulator: its log lines are not part of the client's log
            rig.peer.sim._STATUS_BLOCK_SEGMENT_SIZE = segsize
            spa_blk = rig.peer.block
            # keep the header bytes the handshake needs (pack type/version items), pattern elsewhere
            rig.peer.set_block(spa_blk)
            ok = rig.connect(timeout=120.0)
            rig.run_for(0.5)
        if not ok:
            return ("handshake", f"segment size {segsize}: the blocking client did not connect")
        try:
            snaps = [s for s in GeckoSnapshot.parse_log_file(path) if s.name == "Connection found"]
        except Exception as e:  # noqa
            return ("parse-raised", f"segment size {segsize}: parsing the traffic log raised {e!r}")
        if not snaps:
            return ("no-connection", f"segment size {segsize}: no connection found in the traffic log")
        got = snaps[0].bytes
        if got != spa_blk:
            d = [i for i in range(min(len(got), 1024)) if got[i] != spa_blk[i]][:4]
            return ("bytes", f"segment size {segsize}: traffic log reassembles to {len(got)} bytes, differences at {d}")
        # the simulator's `parse` command: the connection found in the log is saved as a snapshot file of its own, which
        # is what gets loaded later - it has to read back as the same snapshot
        why = _resave(snaps[0], tmp)
        if why:
            return ("resave", f"segment size {segsize}: {why}")
        return None
    finally:
        shutil.rmtree(tmp, ignore_errors=True)


def _traffic_tokens(job):
    lo, hi = job
    toks = ["'", '"', "\\", "\n", "\x00", "A", "<", "</DATAS>", "<DATAS>", "</PACKT>"]
    strings = ["".join(t) for n_ in (1, 2, 3, 4) for t in itertools.product(toks, repeat=n_)]
    tmp = tempfile.mkdtemp(prefix="geckomc-c19-", dir="/tmp")
    n = 0
    bad = []
    try:
        path = os.path.join(tmp, "t.log")
        for sstr in strings[lo:hi]:
            n += 1
            payload = sstr.encode("latin1")
            segs = [b"\x01\x02" + payload + b"\x03", payload, b"xyz" + payload]
            with FileLog(path, logging.DEBUG):
                logging.getLogger("geckolib.spa").info("Starting spa connection handshake...")
                sock = GeckoUdpSocket()
                from geckolib.driver import GeckoPacketProtocolHandler, GeckoStatusBlockProtocolHandler
                sock.add_receive_handler(GeckoPacketProtocolHandler(socket=sock))
                sock.add_receive_handler(GeckoStatusBlockProtocolHandler())
                for i, sg in enumerate(segs):
                    nxt = 0 if i == len(segs) - 1 else i + 1
                    sock.dispatch_recevied_data(wire.frame(SPA_ID, b"IOSx", wire.statv(i, nxt, sg)), SPA_ADDR)
            exp = b"".join(segs)
            try:
                snaps = GeckoSnapshot.parse_log_file(path)
                got = snaps[0].bytes if snaps else None
            except Exception as e:  # noqa  - the parser must not choke on any segment content
                got = f"<parse raised {e!r}>"
            if got != exp:
                cls = "both-quotes" if ("'" in sstr and '"' in sstr) else ("quote" if ("'" in sstr or '"' in sstr) else "other")
                bad.append((cls, f"segment content {payload!r}: traffic log reassembles to {got!r}, transferred {exp!r}"))
    finally:
        shutil.rmtree(tmp, ignore_errors=True)
    return n, bad


# ---- (c) shipped snapshots ------------------------------------------------------------------
def _partitions():
    """Irregular segmentations of a 1024-byte transfer (the segment index is one byte, so at most 256 segments)."""
    sizes = [1, 7, 10, 39, 40, 100, 255]
    out = []
    for a, b in itertools.product(sizes, repeat=2):
        if a != b:
            out.append(("alt", (a, b)))        # a, b, a, b, ...
            out.append(("first", (a, b)))      # a, then b, b, b, ...
    out += [("cycle", (10, 39, 39, 5, 200)), ("cycle", (39, 38, 40)), ("cycle", (3, 250, 17)), ("grow", (5,)), ("shrink", (120,))]
    res = []
    for kind, p in out:
        segs, left, i = [], 1024, 0
        while left > 0:
            if kind == "alt":
                n = p[i % 2]
            elif kind == "first":
                n = p[0] if i == 0 else p[1]
            elif kind == "cycle":
                n = p[i % len(p)]
            elif kind == "grow":
                n = p[0] + 3 * i
            else:
                n = max(4, p[0] - 5 * i)
            n = min(n, left, 255)
            segs.append(n)
            left -= n
            i += 1
        if len(segs) <= 256:
            res.append((f"{kind}{p}", segs))
    return res


def _traffic_partition_job(job):
    lo, hi = job
    tmp = tempfile.mkdtemp(prefix="geckomc-c19-", dir="/tmp")
    n = 0
    bad = []
    blk = bytes((7 * i + 3 * (i // 11) + 1) % 256 for i in range(1024))
    try:
        path = os.path.join(tmp, "p.log")
        for name, segs in _partitions()[lo:hi]:
            n += 1
            with FileLog(path, logging.DEBUG):
                logging.getLogger("geckolib.spa").info("Starting spa connection handshake...")
                sock = GeckoUdpSocket()
                from geckolib.driver import GeckoPacketProtocolHandler, GeckoStatusBlockProtocolHandler
                sock.add_receive_handler(GeckoPacketProtocolHandler(socket=sock))
                sock.add_receive_handler(GeckoStatusBlockProtocolHandler())
                off = 0
                for i, sz in enumerate(segs):
                    nxt = 0 if i == len(segs) - 1 else (i + 1) % 256
                    sock.dispatch_recevied_data(wire.frame(SPA_ID, b"IOSx", wire.statv(i, nxt, blk[off:off + sz])), SPA_ADDR)
                    off += sz
            try:
                snaps = GeckoSnapshot.parse_log_file(path)
                got = snaps[0].bytes if snaps else None
            except Exception as e:  # noqa
                got = f"<parse raised {e!r}>"
            if got != blk:
                bad.append(("segmentation", f"traffic log of a transfer cut into segments {name} ({segs[:6]}...): reassembles to "
                                            f"{len(got) if isinstance(got, bytes) else got} bytes"
                                            f"{'' if not isinstance(got, bytes) else ', first difference at ' + str(next((i for i in range(min(len(got), 1024)) if got[i] != blk[i]), min(len(got), 1024)))}"))
    finally:
        shutil.rmtree(tmp, ignore_errors=True)
    return n, bad


def _reload_job(_):
    """ONE simulator loads every shipped snapshot one after the other (forwards, then backwards, so that snapshots of
    the same pack/config/log versions follow each other both ways): after each load it holds and serves that snapshot."""
    from ..peers import SimPeer
    from . import c01

    snaps = []
    for f in lib.snapshot_files():
        try:
            for i, sn in enumerate(GeckoSnapshot.parse_log_file(f)):
                if len(sn.bytes) == 1024 and sn.packtype:
                    snaps.append((f"{os.path.basename(f)}#{i}", sn))
        except Exception:  # noqa  (reported by the per-file job)
            pass
    lib.reset_library()
    peer = SimPeer(snaps[0][1])
    bad = []
    n = 0
    prev = snaps[0][0]
    for tag, sn in snaps[1:] + snaps[::-1]:
        n += 1
        nlog = len(lib.LOG.records)
        peer.sim.set_snapshot(sn)
        sim = peer.sim
        errs = [r for r in lib.LOG.records[nlog:] if "snapshot load" in r[2]]
        if errs:
            bad.append(("reload", f"{tag} loaded after {prev}: set_snapshot failed: {errs[0][3]}"))
        elif sim.structure.status_block != sn.bytes:
            d = [i for i in range(1024) if sim.structure.status_block[i] != sn.bytes[i]]
            bad.append(("reload", f"{tag} loaded into a simulator that held {prev}: the simulator's block differs from the snapshot at "
                                  f"{len(d)} offsets (first {d[:4]})"))
        elif sim.config_class.version != sn.config_version or sim.log_class.version != sn.log_version:
            bad.append(("reload", f"{tag} loaded after {prev}: simulator tables cfg {sim.config_class.version} / log {sim.log_class.version}"))
        else:
            why = c01.chain_violation(sim, 0, 1024)
            if why:
                bad.append(("reload", f"{tag} loaded after {prev}: served chain: {why}"))
        if bad:
            break
        prev = tag
    return n, bad


def _shipped_job(path):
    name = os.path.basename(path)
    out = []
    try:
        snaps = GeckoSnapshot.parse_log_file(path)
    except Exception as e:  # noqa
        return name, 0, [("parse", f"{name}: parse raised {e!r}")]
    if not snaps:
        return name, 0, [("parse", f"{name}: no snapshot found")]
    for i, s in enumerate(snaps):
        tag = f"{name}#{i}"
        try:
            hdr = (s.packtype, s.config_version, s.log_version, s.intouch_EN, s.intouch_CO, len(s.bytes))
        except Exception as e:  # noqa
            out.append(("header", f"{tag}: header raises {e!r}"))
            continue
        if len(s.bytes) != 1024 or not s.packtype:
            out.append(("header", f"{tag}: {len(s.bytes)} bytes, pack type {s.packtype!r}"))
            continue
        rig = Rig(Chooser(), snapshot=s)
        load_errs = [r for r in lib.LOG.records if "snapshot load" in r[2]]
        sim = rig.peer.sim
        # "the simulator can load it": the load itself must have succeeded, with the tables the snapshot names
        if load_errs:
            out.append(("load", f"{tag}: simulator.set_snapshot failed: {load_errs[0][3]}"))
        elif (getattr(sim, "config_class", None) is None or getattr(sim, "log_class", None) is None
              or sim.config_class.version != s.config_version or sim.log_class.version != s.log_version
              or not sim.structure.accessors or sim.structure.status_block != s.bytes):
            out.append(("load", f"{tag}: simulator loaded cfg {getattr(getattr(sim, 'config_class', None), 'version', None)} / log "
                                f"{getattr(getattr(sim, 'log_class', None), 'version', None)} with {len(sim.structure.accessors)} items, "
                                f"snapshot says cfg {s.config_version} / log {s.log_version}"))
        ok = rig.connect(120.0)
        errs = list(lib.LOG.records)
        if not ok:
            out.append(("serve", f"{tag}: a client cannot connect to the simulator loaded with it (state {rig.man.spa_state.name}; {errs[:1]})"))
        else:
            spa = rig.spa
            if spa.struct.status_block != s.bytes:
                out.append(("bytes", f"{tag}: the client's block differs from the snapshot bytes"))
            if (spa.config_version, spa.log_version) != (s.config_version, s.log_version) or spa.pack_class.name.lower() != s.packtype.lower():
                out.append(("header", f"{tag}: client sees {spa.pack_class.name} cfg {spa.config_version} log {spa.log_version}"))
            if spa.intouch_version_en != "{0} v{1}.{2}".format(*s.intouch_EN):
                out.append(("header", f"{tag}: firmware EN {spa.intouch_version_en} vs {s.intouch_EN}"))
            # ... and keeps serving it unchanged: let the client's periodic refresh of the log range happen
            n_ref = sum(1 for e in rig.man.events if e[1].name == "RUNNING_SPA_PACK_REFRESHED")
            rig.loop.run_for(260.0, lambda: sum(1 for e in rig.man.events if e[1].name == "RUNNING_SPA_PACK_REFRESHED") > n_ref)
            if sum(1 for e in rig.man.events if e[1].name == "RUNNING_SPA_PACK_REFRESHED") <= n_ref:
                out.append(("refresh", f"{tag}: no refresh of the log range completed within 260 s"))
            elif spa.struct.status_block != s.bytes:
                d = [i for i in range(1024) if spa.struct.status_block[i] != s.bytes[i]]
                out.append(("bytes", f"{tag}: after the client's refresh of the log range its block differs from the snapshot at "
                                     f"{len(d)} offsets (first {d[:4]})"))
        rig.exit()
        rig.close()
    return name, len(snaps), out


# ---- (d) "served unchanged" with the simulator's own unreliability switched on ---------------------------------
class _ScriptedRandom:
    """Stands in for the `random` module inside geckolib.utils.simulator: every draw the loss model makes while armed
    is a choice point (0 = answer, 1 = ignore)."""

    def __init__(self, ch):
        self.ch = ch
        self.armed = False

    def random(self):
        if not self.armed:
            return 0.0
        return 0.999 if self.ch.choose("simloss", 2) else 0.0

    def seed(self, *a):
        pass


def _unreliable_job(job):
    (kind, start, length, R), prefix = job
    from . import c01
    import geckolib.utils.simulator as simmod
    from .. import explore

    def body(ch):
        rnd = _ScriptedRandom(ch)
        orig = simmod.random
        simmod.random = rnd
        try:
            rig = c01.ARig(ch) if kind == "async" else c01.TClient(ch)
            snap = lib.default_snapshot()
            new = bytes(snap.bytes)
            old = bytes(255 - b for b in new)
            rig.use_blocks(new, old)
            rig.peer.sim._reliability = 0.5
            rnd.armed = True
            if kind == "async":
                obs = rig.transfer(start, length, R=R, settle=0.5)
            else:
                obs = rig.transfer(start, length, N=R - 1, fates=None)
            rnd.armed = False
            why = c01._judge(obs, start, length, R, False, before=old, spa=new)
            if kind == "async":
                rig.close()
        finally:
            simmod.random = orig
        viol = []
        if why:
            drops = [i for i, (k, n, c) in enumerate(ch.trace) if k == "simloss" and c]
            viol.append((f"C19|unreliable-simulator|{kind}|{why[0]}",
                         f"{kind} client fetching [{start},{start+length}) from a simulator with reliability 0.5 whose loss model ignores "
                         f"draw(s) no. {drops} (0 = the request, k = segment k-1 of that attempt ...): {why[1]}",
                         {"mode": "unreliable", "kind": kind, "start": start, "length": length, "R": R,
                          "prefix": [list(p) for p in ch.trace]}))
        res = obs["result"]
        return {"violations": viol, "obs": core.digest([res, obs["statu"]]), "end": core.digest(bytes(obs["block"]).hex())}

    return explore.run_with(prefix, body)


def run(ctx):
    evals = 0
    nontrivial = set()
    from .. import explore
    for kind in ("async", "threaded"):
        for (start, length, R, bnd) in ((100, 100, 2, 64), (0, 1024, 3, 2 if ctx.quick else 3)):
            st = explore.explore(ctx, _unreliable_job, (kind, start, length, R), bound=bnd, choice_kinds={"simloss"},
                                 label=f"unreliable simulator {kind} [{start},{start+length}) R={R}", max_execs=40000 if ctx.quick else 400000)
            explore.fold_stats(ctx, st, prefix=f"unreliable_{kind}_len{length}_")
            evals += st["executions"]
            nontrivial.update(("unreliable", kind, length, o) for o in st["obs"])
            if len(st["obs"]) < 2 and not st["stopped_on_violation"]:
                raise core.HarnessError("C19: the simulator's loss model never changed an outcome - vacuous")
    ctx.log(f"(d) simulator's own loss model: {evals} executions")
    jobs = [("blocks", lo, min(256, lo + 16)) for lo in range(0, 256, 16)]
    jobs += [("versions", lo, lo + 27) for lo in range(0, 216, 27)]
    nnames = 1 + 9 + 81 + 729 + 60
    jobs += [("names", lo, min(nnames, lo + 60)) for lo in range(0, nnames, 60)]
    jobs += [("packs", 0, 0)]
    for kind, n, bad in core.pmap(ctx, _shell_job, jobs, chunksize=1):
        evals += n
        nontrivial.add(kind)
        if bad:
            ctx.violation(f"C19|shell|{bad[0]}", bad[1], {"mode": "shell"})
    # also zeros/ones/shipped blocks
    tmp = tempfile.mkdtemp(prefix="geckomc-c19-", dir="/tmp")
    try:
        blocks = [("zeros", bytes(1024)), ("ones", b"\xff" * 1024)]
        for f in lib.snapshot_files()[:8]:
            for s in lib.load_snapshots(f)[:1]:
                if len(s.bytes) == 1024:
                    blocks.append((os.path.basename(f), s.bytes))
        for nm, blk in blocks:
            evals += 1
            why = _shell_case(tmp, "x", blk, (88, 15, 0), (89, 11, 0), "inXM", (186, 3, 0), 9, 9)
            if why:
                ctx.violation("C19|shell|block", f"block {nm}: {why}", {"mode": "shell"})
    finally:
        shutil.rmtree(tmp, ignore_errors=True)
    ctx.log(f"(a) shell capture round trips: {evals}")
    # the segment index is one byte: sizes below 4 would need more than 256 segments for 1024 bytes
    sizes = list(range(4, 256)) if not ctx.quick else [4, 5, 7, 13, 16, 38, 39, 40, 64, 100, 128, 200, 254, 255]
    for why, sz in zip(core.pmap(ctx, _traffic_handshake, sizes, chunksize=1), sizes):
        evals += 1
        nontrivial.add(("segsize", sz))
        if why:
            ctx.violation(f"C19|traffic|{why[0]}", why[1], {"mode": "traffic-handshake", "segsize": sz})
    ntok = 10 + 100 + 1000 + (10000 if not ctx.quick else 0)
    tjobs = [(lo, min(ntok, lo + 25)) for lo in range(0, ntok, 25)]
    for n, bad in core.pmap(ctx, _traffic_tokens, tjobs, chunksize=1):
        evals += n
        for cls, text in bad:
            ctx.violation(f"C19|traffic-content|{cls}", text, {"mode": "traffic-tokens"})
    nontrivial.add("traffic-tokens")
    npart = len(_partitions())
    for n, bad in core.pmap(ctx, _traffic_partition_job, [(lo, min(npart, lo + 8)) for lo in range(0, npart, 8)], chunksize=1):
        evals += n
        for cls, text in bad:
            ctx.violation(f"C19|traffic-content|{cls}", text, {"mode": "traffic-partitions"})
    nontrivial.add("traffic-partitions")
    ctx.set("traffic_partitions", npart)
    ctx.log(f"(b) traffic logs: {len(sizes)} segment sizes, {ntok} segment contents")
    files = lib.snapshot_files()
    total_snaps = 0
    for name, ns, out in core.pmap(ctx, _shipped_job, files, chunksize=1):
        evals += max(1, ns)
        total_snaps += ns
        nontrivial.add(("file", name))
        for cls, text in out:
            ctx.violation(f"C19|shipped|{cls}|{name}", text, {"mode": "shipped", "file": name})
    for n, bad in core.pmap(ctx, _reload_job, [0], chunksize=1):
        evals += n
        for cls, text in bad:
            ctx.violation(f"C19|shipped|{cls}", text, {"mode": "reload"})
    nontrivial.add("reload-chain")
    ctx.sample({"shipped_case": {"file": os.path.basename(files[ctx.seed % len(files)]), "steps": "parse -> set_snapshot -> real async client connects -> block compared"}})
    ctx.sample({"traffic_case": {"segment_size": sizes[ctx.seed % len(sizes)], "log": "DEBUG log of the blocking client's handshake, parsed back"}})
    ctx.set("shipped_files", len(files))
    ctx.set("shipped_snapshots", total_snaps)
    ctx.log(f"(c) {len(files)} shipped files holding {total_snaps} snapshots")
    ctx.set("evaluations", evals)
    ctx.set("distinct_nontrivial", len(nontrivial))
    ctx.set("rule", "cases = shell captures (block / version tuple / name / pack name) parsed back, traffic logs of real handshakes per "
            "segment size and of segment contents over the quote/escape alphabet, shipped snapshots served to a real client; "
            "distinct_nontrivial = case classes + segment sizes + shipped files")
    ctx.set("exhaustive", not ctx.quick)
    ctx.sample({"capture": {"block": "b[i]=(i+37) mod 256", "EN": [88, 15, 0], "CO": [89, 11, 0], "pack": "inXM 186 v3.0"}})
    ctx.sample({"traffic": "STATV segments containing b'A\\'\"' logged by the receiving socket, parsed by GeckoSnapshot"})


def replay(ctx, data):
    m = data["mode"]
    if m == "unreliable":
        res = _unreliable_job(((data["kind"], data["start"], data["length"], data["R"]), [tuple(p) for p in data["prefix"]]))
        ctx.merge_violations(res["violations"])
    elif m == "traffic-handshake":
        why = _traffic_handshake(data["segsize"])
        if why:
            ctx.violation(f"C19|traffic|{why[0]}", why[1], data)
    elif m == "reload":
        n, bad = _reload_job(0)
        for cls, text in bad:
            ctx.violation(f"C19|shipped|{cls}", text, data)
    elif m == "traffic-partitions":
        n, bad = _traffic_partition_job((0, 1000))
        for cls, text in bad:
            ctx.violation(f"C19|traffic-content|{cls}", text, data)
    elif m == "traffic-tokens":
        n, bad = _traffic_tokens((0, 400))
        for cls, text in bad:
            ctx.violation(f"C19|traffic-content|{cls}", text, data)
    elif m == "shipped":
        name, ns, out = _shipped_job(os.path.join(lib.SNAPDIR, data["file"]))
        for cls, text in out:
            ctx.violation(f"C19|shipped|{cls}|{name}", text, data)
    else:
        for kind, n, bad in map(_shell_job, [("blocks", 0, 256), ("versions", 0, 216), ("names", 0, 820), ("packs", 0, 0)]):
            if bad:
                ctx.violation(f"C19|shell|{bad[0]}", bad[1], data)
    ctx.set("evaluations", 1)
    ctx.set("distinct_nontrivial", 2)
    ctx.set("rule", "replay")
