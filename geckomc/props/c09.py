"""C09 - self-healing: the manager returns to CONNECTED once the spa is reachable again.

Seam: the WHOLE async stack (GeckoAsyncSpaMan with spa address+identifier configured -> locator ->
GeckoAsyncSpa handshake -> real GeckoAsyncFacade) on VLoop/VNet against the real simulator.

Enumerated (fault_enumeration, bounded liveness in virtual seconds):
  * scripts: up to 3 phases from {blackout, RF-error, lossy(every 2nd request), lossy(STATU+CURCH), lossy(all pings)}
    x durations {1, 30, 130, 400 s} starting at several points of the life cycle (before discovery,
    mid-handshake, steady state), then healthy for ever;
  * crash points: async_reset / async_set_spa_info injected at EVERY loop step of the baseline
    connection (each step is an await point of some task), network healthy throughout;
  * timer-order deviations around a few injections.
Oracle:
  (i)   from the moment the network is healthy (and the last user call was made) the manager is
        CONNECTED within B = 2*(discovery timeout + 5*R*(timeout+pause)) + 2*ping period (taken
        from the live GeckoConfig), the client block equals the simulator's and facade readings
        equal an independent decode of it;
  (ii)  during a blackout that outlasts the not-responding timeout the state leaves CONNECTED
        within timeout + ping period + one request budget;
  (iii) the 'SPAMAN:Sequence Pump' task is never done.
"""
from __future__ import annotations

import itertools
import struct

from .. import core, explore, lib
from ..peers import unframe
from ..rig import Rig
from ..vloop import Chooser

LEVEL = "fault_enumeration"

import geckolib.config as gconfig  # noqa: E402
from geckolib import GeckoSpaState as S  # noqa: E402

from ..peers import SPA_ADDR as SPA_ADDR_  # noqa: E402

DUR = [1.0, 30.0, 130.0, 400.0]
PHASES = ["blackout", "rferr", "lossy2", "lossy-verb", "lossy-ping", "refused"]
STARTS = {"before-discovery": 0.0, "mid-discovery": 0.15, "mid-handshake": 0.75, "mid-transfer": 2.0, "steady": 20.0}


def bound():
    c = gconfig._GeckoIdleConfig()
    R, T, P = c.PROTOCOL_RETRY_COUNT, c.PROTOCOL_TIMEOUT_IN_SECONDS, c.PAUSE_BETWEEN_RETRIES_IN_SECONDS
    return 2 * (c.DISCOVERY_TIMEOUT_IN_SECONDS + 5 * R * (T + P)) + 2 * c.PING_FREQUENCY_IN_SECONDS


def leave_bound():
    c = gconfig._GeckoIdleConfig()
    R, T, P = c.PROTOCOL_RETRY_COUNT, c.PROTOCOL_TIMEOUT_IN_SECONDS, c.PAUSE_BETWEEN_RETRIES_IN_SECONDS
    return c.PING_DEVICE_NOT_RESPONDING_TIMEOUT_IN_SECONDS + c.PING_FREQUENCY_IN_SECONDS + 2 * R * (T + P) + 10


def _apply_phase(rig, ph):
    peer = rig.peer
    peer.drop_request = None
    rig.net.fates = None
    if ph == "refused":
        # the OS refuses every send of the client (network unreachable): asyncio reports error_received, nothing leaves
        peer.set_mode("healthy")
        rig.net.fates = lambda src, dst, data: ["error"] if dst == SPA_ADDR_ else None
        return
    if ph == "refused-once":
        peer.set_mode("healthy")
        st = {"done": False}

        def once(src, dst, data):
            if dst == SPA_ADDR_ and not st["done"]:
                st["done"] = True
                return ["error"]
            return None

        rig.net.fates = once
        return
    if ph == "user-new-address":
        # the spa got another address (new DHCP lease) and the user enters it: same identifier, new address
        peer.set_mode("healthy")
        new = ("10.0.0.77", SPA_ADDR_[1])
        rig.net.peers.pop(tuple(peer.addr), None)
        rig.net.add_peer(new, peer)
        man = rig.man
        rig.spawn(man.async_set_spa_info(new[0], man._spa_identifier, man._spa_name), name="HARNESS:user-call")
        return
    if ph in ("user-reset", "user-set-spa-info"):
        # the network is healthy again and the user asks for a fresh start (the documented way out of a terminal error
        # state such as ERROR_SPA_NOT_FOUND)
        peer.set_mode("healthy")
        man = rig.man
        coro = man.async_reset() if ph == "user-reset" else man.async_set_spa_info(man._spa_address, man._spa_identifier, man._spa_name)
        rig.spawn(coro, name="HARNESS:user-call")
        return
    if ph == "healthy":
        peer.set_mode("healthy")
    elif ph == "blackout":
        peer.set_mode("blackout")
    elif ph == "rferr":
        peer.set_mode("rferr")
    elif ph == "lossy2":
        peer.set_mode("healthy")
        cnt = [0]

        def drop(data, src):
            cnt[0] += 1
            return cnt[0] % 2 == 0

        peer.drop_request = drop
    elif ph == "lossy-verb":
        peer.set_mode("healthy")

        def drop(data, src):
            p = unframe(data)
            return bool(p and p[2][:5] in (b"STATU", b"CURCH"))

        peer.drop_request = drop
    elif ph == "lossy-ping":
        # every ping is lost while everything else gets through: a connection can complete without one ping reply
        peer.set_mode("healthy")

        def drop(data, src):
            p = unframe(data)
            return bool(p and p[2][:5] == b"APING")

        peer.drop_request = drop


def _pump(rig):
    return rig.pump


def _verify_connected(rig):
    """Facade mirrors the spa: block identical + independent decode of a few readings."""
    spa, fac = rig.spa, rig.facade
    if fac is None or spa is None:
        return "CONNECTED without facade/spa"
    blk = rig.peer.block
    if spa.struct.status_block != blk:
        return "client block differs from the simulator block after recovery"
    acc = spa.accessors
    tu = acc["TempUnits"]
    raw_unit = (blk[tu.pos] >> (tu.bitpos or 0)) & getattr(tu, "bitmask", 0xFF) if tu.bitpos is not None else blk[tu.pos]
    unit = tu.items[raw_unit] if raw_unit < len(tu.items) else "Unknown"
    sp = acc["SetpointG"]
    raw = struct.unpack(">H", blk[sp.pos:sp.pos + 2])[0]
    exp = raw / 18.0 if unit == "C" else (raw + 320) / 10.0
    if abs(fac.water_heater.target_temperature - exp) > 1e-9:
        return f"facade target temperature {fac.water_heater.target_temperature} != decoded {exp}"
    return None


def _finish(rig, t_healthy, why, tag):
    """Run the healthy tail and judge (i) and (iii)."""
    B = bound()
    if why is None:
        ok = rig.loop.run_until(t_healthy + B, lambda: rig.man.spa_state == S.CONNECTED and rig.facade is not None)
        p = _pump(rig)
        if p is None or p.done():
            exc = None
            if p is not None and not p.cancelled():
                exc = p.exception()
            why = ("pump-dead", f"the sequence pump task ended ({exc!r}); manager state {rig.man.spa_state.name}")
        elif not ok:
            why = (f"stuck-{rig.man.spa_state.name}", f"not CONNECTED {B:.0f}s after the network became healthy; state "
                   f"{rig.man.spa_state.name}, spa {'present' if rig.spa else 'None'}")
        else:
            rig.loop.run_for(1.0)
            bad = _verify_connected(rig)
            if bad:
                why = ("mirror", bad)
            else:
                # stays connected while healthy
                rig.loop.run_for(150.0)
                if rig.man.spa_state != S.CONNECTED:
                    why = ("flap", f"left CONNECTED on a healthy network: {rig.man.spa_state.name}")
    states = [e[2].name for e in rig.man.events]
    obs = core.digest([tag, why, states[-5:]])
    try:
        rig.exit()
    except Exception:
        pass
    rig.close()
    return why, obs


async def _yield():
    import asyncio

    await asyncio.sleep(0)


def _script_job(job):
    start_name, phases = job[:2]
    yielding = len(job) > 2 and job[2]
    rig = Rig(Chooser())
    if yielding:
        # a client whose handle_event really yields to the loop (as any handler doing I/O does)
        rig.man.on_event = lambda event, kw: _yield()
    rig.enter()
    t0 = rig.loop.time()
    t = t0 + STARTS[start_name]
    rig.loop.run_until(t)
    why = None
    for ph, dur in phases:
        _apply_phase(rig, ph)
        was_connected = rig.man.spa_state == S.CONNECTED
        t_ph = rig.loop.time()
        if ph == "blackout" and was_connected and dur > leave_bound():
            left = rig.loop.run_until(t_ph + leave_bound(), lambda: rig.man.spa_state != S.CONNECTED)
            if not left:
                why = ("unreported", f"still CONNECTED {leave_bound():.0f}s into a blackout")
        rig.loop.run_until(t_ph + dur)
        p = _pump(rig)
        if why is None and (p is None or p.done()):
            why = ("pump-dead", f"the sequence pump ended during phase {ph}")
    _apply_phase(rig, "healthy")
    why, obs = _finish(rig, rig.loop.time(), why, str(job))
    if why:
        user = [ph for ph, d in phases if ph.startswith("user-")]
        key = f"C09|script{'+' + user[-1] if user else ''}|{why[0]}|start={start_name}|first={phases[0][0]}"
        return (key, f"script start={start_name} phases={phases}{' (yielding client handler)' if yielding else ''} then healthy: {why[1]}",
                {"mode": "script", "start": start_name, "phases": [list(p) for p in phases], "yielding": yielding}), obs
    return None, obs


def _baseline_steps():
    rig = Rig(Chooser())
    rig.enter()
    n = 0
    with rig.loop.running():
        while rig.man.spa_state != S.CONNECTED and n < 100000:
            if not rig.loop.step():
                break
            n += 1
    ok = rig.man.spa_state == S.CONNECTED
    rig.exit()
    rig.close()
    if not ok:
        raise core.HarnessError("C09: baseline never connects")
    return n


def _inject_run(ch, kind, k, window):
    rig = Rig(ch, window=window)
    rig.loop.timer_choices_enabled = False
    rig.enter()
    rig.loop.run_steps(k)
    st = rig.man.spa_state
    rig.loop.timer_choices_enabled = True
    man = rig.man
    if kind == "reset":
        coro = man.async_reset()
    else:
        coro = man.async_set_spa_info(man._spa_address, man._spa_identifier, man._spa_name)
    t = rig.spawn(coro, name="HARNESS:inject")
    t_inj = rig.loop.time()
    rig.loop.run_for(3.0)
    rig.loop.timer_choices_enabled = False
    why = None
    if t.done() and not t.cancelled() and t.exception() is not None:
        why = ("inject-raised", f"{kind} raised {t.exception()!r}")
    why, obs = _finish(rig, t_inj, why, f"{kind}@{k}")
    return why, st, obs


def _inject_job(job):
    (kind, k, window), prefix = job

    def body(ch):
        why, st, obs = _inject_run(ch, kind, k, window)
        viol = []
        if why:
            viol.append((f"C09|inject|{why[0]}|{kind}@{st.name}",
                         f"{kind} injected at loop step {k} (state {st.name}): {why[1]}",
                         {"mode": "inject", "kind": kind, "k": k, "window": window,
                          "prefix": [list(p) for p in ch.trace]}))
        return {"violations": viol, "obs": obs, "end": obs, "state": st.name}

    return explore.run_with(prefix, body)


def run(ctx):
    evals = 0
    outcomes = set()
    # scripts
    scripts = []
    singles = [((ph, d),) for ph in PHASES for d in DUR]
    for sn in STARTS:
        for s in singles:
            scripts.append((sn, s))
    doubles = [((a, da), (b, db)) for a in PHASES for b in PHASES if a != b for da in (30.0, 130.0) for db in (1.0, 130.0)]
    for sn in ("mid-handshake", "steady"):
        for s in (doubles if not ctx.quick else doubles[::3]):
            scripts.append((sn, s))
    # one single send refused by the OS, at each start point, then healthy
    for sn in STARTS:
        scripts.append((sn, (("refused-once", 60.0),)))
    # a connection made while one kind of traffic is lost, then the spa disappears for good measure
    for sn in STARTS:
        for ph in ("lossy-ping", "lossy2", "lossy-verb"):
            for da in ((10.0, 30.0, 130.0) if not ctx.quick else (30.0,)):
                scripts.append((sn, ((ph, da), ("blackout", 400.0))))
    # the spa cannot be found (or the connection is otherwise stuck) while the network is bad; once it is healthy the user
    # resets / re-enters the spa: from every start point, whatever state the outage left behind
    for sn in STARTS:
        for ph in ("blackout", "rferr", "lossy-verb", "refused"):
            for d in ((30.0, 130.0, 400.0) if not ctx.quick else (30.0, 400.0)):
                for call in ("user-reset", "user-set-spa-info"):
                    scripts.append((sn, ((ph, d), (call, 1.0))))
    # the spa moves to another address and the user enters it (directly, and after an outage)
    for sn in STARTS:
        scripts.append((sn, (("user-new-address", 1.0),)))
        scripts.append((sn, (("blackout", 130.0), ("user-new-address", 1.0))))
    if not ctx.quick:
        triples = [((a, 30.0), (b, 130.0), (c, 30.0)) for a in PHASES for b in PHASES for c in PHASES if a != b and b != c]
        for s in triples:
            scripts.append(("steady", s))
    scripts = [s + (False,) for s in scripts] + [s + (True,) for s in scripts]
    for (viol, obs) in core.pmap(ctx, _script_job, scripts, chunksize=1):
        evals += 1
        outcomes.add(obs)
        if viol:
            ctx.violation(*viol)
    ctx.set("scripts", len(scripts))
    ctx.log(f"{len(scripts)} fault scripts")

    # crash points: every loop step of the baseline connection
    n = _baseline_steps()
    stride = 3 if ctx.quick else 1
    jobs = [((kind, k, 0.0), ()) for kind in ("reset", "set_spa_info") for k in range(0, n + 40, stride)]
    by_state = {}
    for res in core.pimap(ctx, _inject_job, jobs, chunksize=4):
        evals += 1
        outcomes.add(res["obs"])
        by_state[res["state"]] = by_state.get(res["state"], 0) + 1
        ctx.merge_violations(res["violations"])
    ctx.set("baseline_loop_steps", n)
    ctx.set("injection_points", len(jobs))
    ctx.set("injections_by_state", by_state)
    ctx.log(f"{len(jobs)} injections over {n} baseline loop steps: {by_state}")

    # wake-up jitter around a few injections
    tb = 1
    sel = [("reset", k) for k in (n // 4, n // 2, n - 5, n + 20)]
    if not ctx.quick:
        sel += [("set_spa_info", k) for k in (n // 3, n - 20)]
    te = 0
    for kind, k in sel:
        st = explore.explore(ctx, _inject_job, (kind, k, 0.049), bound=tb, label=f"jitter {kind}@{k}", max_execs=20000)
        te += st["executions"]
        outcomes.update(st["obs"])
    ctx.set("jitter_executions", te)
    evals += te

    ctx.set("evaluations", evals)
    ctx.set("distinct_nontrivial", len(outcomes))
    ctx.set("rule", "cases = fault scripts (start point x up to 3 phases x durations) and user-call injections at every loop "
            "step of the baseline connection (+ timer-order deviations); distinct_nontrivial = distinct (case, verdict, final "
            "event tail) digests")
    ctx.set("recovery_bound_s", bound())
    ctx.sample({"script": {"start": "steady", "phases": [["blackout", 130.0], ["rferr", 30.0]]},
                "oracle": f"CONNECTED within {bound():.0f}s of healthy, block mirrors the spa, pump alive"})
    ctx.sample({"inject": "async_reset at loop step 200 of the baseline connection (state CONNECTING)"})
    ctx.assume("bounded liveness in virtual seconds derived from the idle GeckoConfig; network healthy for ever after the script")


def replay(ctx, data):
    if data["mode"] == "script":
        v, _ = _script_job((data["start"], tuple(tuple(p) for p in data["phases"]), data.get("yielding", False)))
        if v:
            ctx.violation(*v)
    else:
        res = _inject_job(((data["kind"], data["k"], data["window"]), [tuple(p) for p in data["prefix"]]))
        ctx.merge_violations(res["violations"])
    ctx.set("evaluations", 1)
    ctx.set("distinct_nontrivial", 2)
    ctx.set("rule", "replay")
