"""C01 - status-block transfer installs the spa's bytes or nothing, under any faults.

Seams (real code only):
  async    : a really connected GeckoAsyncSpa (real _connect: endpoint, unhandled/packet/partial/
             rferr/wcerr consumers) on VLoop/VNet; the transfer under test is
             spa.struct.get(spa._protocol, STATU-factory, retry_count=R).  Ping/refresh loops are
             cancelled after the handshake so the only STATU traffic is the harness's.
  threaded : GeckoStructure.retry_request on a real GeckoUdpSocket stepped in virtual time.
  peer     : the real GeckoSimulator (its _on_status_block builds the segment chain).

Enumerated:
  (a) fault-free: every (start,length), start+length<=1024, length>=1 at chain level (simulator
      generator decoded by a reference decoder); full client path for a quick subset / all pairs.
  (b) faults: request and every segment get a fate from {deliver, drop, dup, delay past the
      successor, delay into the next attempt}: ALL fate vectors for 1..3-segment transfers,
      deviation-bounded vectors for the 27-segment transfer with R=10, stationary adversaries.
Oracle: see _judge().
"""
from __future__ import annotations

import struct

from .. import core, explore, lib, stepped
from ..peers import SPA_ADDR, SPA_ID, SimPeer, frame, unframe
from ..vloop import Chooser, VLoop
from ..vnet import VNet

LEVEL = "fault_enumeration"

from geckolib import GeckoAsyncSpa, GeckoAsyncSpaDescriptor, AsyncTasks  # noqa: E402
from geckolib.driver import (  # noqa: E402
    GeckoPacketProtocolHandler,
    GeckoStatusBlockProtocolHandler,
    GeckoStructure,
    GeckoUdpSocket,
)

SEG = 39
SPA_BLOCK = bytes((7 * i + 3) % 251 for i in range(1024))
CLIENT_BLOCK = bytes(255 - b for b in SPA_BLOCK)
CLIENT_ID = b"IOSgeckomc-0001"
FATES = ["deliver", "drop", "dup", "delay:0.03", "delay:4.3"]


def nseg(length):
    return -(-length // SEG)


# ------------------------------------------------------------------------------------------
# (a) chain level: the simulator's generator for every (start, length)


class _Req:
    """What the simulator's status-block responder reads from a received request (a fresh client's handshake numbers
    its full-block request 4)."""

    def __init__(self, start, length, sequence=4):
        self.start = start
        self.length = length
        self.sequence = sequence
        self._sequence = sequence


def _decode_statv(data):
    parts = unframe(data)
    if parts is None:
        return None
    c = parts[2]
    if not c.startswith(b"STATV"):
        return None
    idx, nxt, ln = c[5], c[6], c[7]
    return idx, nxt, ln, c[8:]


def chain_violation(sim, start, length):
    sim._on_status_block(_Req(start, length), (SPA_ADDR[0], 1, CLIENT_ID, SPA_ID))
    out, sim._socket._send_handlers = sim._socket._send_handlers, []
    segs = [_decode_statv(h.send_bytes) for h, _ in out]
    blk = sim.structure.status_block
    if not segs or any(s is None for s in segs):
        return f"no/undecodable segments: {len(segs)}"
    n = len(segs)
    data = b""
    for i, (idx, nxt, ln, d) in enumerate(segs):
        if idx != i:
            return f"segment {i} carries index {idx}"
        if nxt != (0 if i == n - 1 else i + 1):
            return f"segment {i} of {n} carries next={nxt}"
        if ln != len(d) or ln == 0:
            return f"segment {i} declares length {ln} for {len(d)} bytes"
        data += d
    if len(data) < length or start + len(data) > 1024:
        return f"chain covers {len(data)} bytes for request {length} at {start}"
    if data != blk[start:start + len(data)]:
        return "chain bytes differ from the spa block"
    return None


def _chain_job(starts):
    lib.reset_library()
    peer = SimPeer()
    peer.set_block(SPA_BLOCK)
    bad = []
    n = 0
    for start in starts:
        for length in range(1, 1024 - start + 1):
            n += 1
            why = chain_violation(peer.sim, start, length)
            if why:
                bad.append((start, length, why))
    return n, bad


# ------------------------------------------------------------------------------------------
# async client rig


class ARig:
    def __init__(self, chooser=None, window=0.0, early=None):
        """early = (k, datagram): the datagram arrives from the spa right after the client's k-th datagram of the
        handshake has gone out (C05: a partial update during the handshake)."""
        lib.reset_library()
        self.chooser = chooser or Chooser()
        self.loop = VLoop(self.chooser, window=window)
        self.loop.timer_choices_enabled = False  # handshake on the default schedule
        self.net = VNet(self.loop)
        self.peer = SimPeer()
        self.net.add_peer(SPA_ADDR, self.peer)
        self.events = []
        self.installs = []
        self.net.on_endpoint = self.on_endpoint
        with self.loop.running():
            self.tasks = AsyncTasks()
            desc = GeckoAsyncSpaDescriptor(SPA_ID, "Spa", SPA_ADDR)
            self.spa = GeckoAsyncSpa(CLIENT_ID, desc, self.tasks, self._on_event)
            t = self.loop.create_task(self.spa.connect(), name="HARNESS:connect")
        self.early_injected = False
        if early is not None:
            k, datagram = early[0], early[1]
            delay = early[2] if len(early) > 2 else 0.005
            self.loop.run_for(90.0, lambda: t.done() or sum(1 for x in self.net.sent if x[2] == SPA_ADDR) >= k)
            if not t.done():
                self.loop.run_for(delay)
            if not t.done():
                self.net.inject(self.spa._transport, datagram, SPA_ADDR, delay=0.0)
                self.early_injected = True
        self.loop.run_for(90.0, t.done)
        if not t.done() or t.exception() or not self.spa.is_connected:
            names = [e.name for e in self.events]
            stage = "initial-transfer" if "CONNECTION_INITIAL_DATA_BLOCK_REQUEST" in names else "handshake"
            detail = f"{t!r} events={names[-3:]} log={lib.LOG.records[:2]}"
            self.failed = (stage, detail)
            try:
                self.close()
            except Exception:
                pass
            raise core.RigFailure(stage, detail)
        for task in self.tasks._tasks:
            if task.get_name() in ("SPA:Ping loop", "SPA:Refresh loop"):
                task.cancel()
        self.loop.run_for(0.5)
        self.client_addr = self.spa._transport.addr
        st = self.spa.struct
        orig = st.replace_status_block_segment

        def monitor(offset, segment):
            self.installs.append((self.loop.time(), offset, bytes(segment)))
            return orig(offset, segment)

        st.replace_status_block_segment = monitor
        self.block_at_connect = st.status_block
        self.connect_mark = len(self.net.sent)
        self.peer_block_at_connect = self.peer.block
        self.client_block = CLIENT_BLOCK
        self.peer.set_block(SPA_BLOCK)
        st.set_status_block(CLIENT_BLOCK)
        self.loop.timer_choices_enabled = True

    def use_blocks(self, spa, client):
        self.peer.set_block(spa)
        self.client_block = client

    async def _on_event(self, event, **kw):
        self.events.append(event)

    def on_endpoint(self, transport, protocol):
        pass

    def statu_sent_since(self, mark):
        n = 0
        for (t, src, dst, data) in self.net.sent[mark:]:
            if src == self.client_addr:
                p = unframe(data)
                if p and p[2].startswith(b"STATU"):
                    n += 1
        return n

    def transfer(self, start, length, R, settle=1.0, timeout=None):
        st = self.spa.struct
        proto = self.spa._protocol
        st.set_status_block(self.client_block)
        del self.installs[:]
        mark = len(self.net.sent)

        def factory():
            return GeckoStatusBlockProtocolHandler.request(
                proto.get_and_increment_sequence_counter(False), start, length, parms=self.spa.sendparms
            )

        with self.loop.running():
            t = self.loop.create_task(st.get(proto, factory, retry_count=R), name="HARNESS:get")
        budget = timeout or (R * (4.0 + 0.2 + 0.1 * (nseg(length) * 3 + 10)) + 10.0)
        self.loop.run_for(budget, t.done)
        if not t.done():
            return {"result": "hung", "installs": list(self.installs), "statu": self.statu_sent_since(mark),
                    "block": st.status_block}
        if t.exception() is not None:
            return {"result": f"raised {t.exception()!r}", "installs": list(self.installs),
                    "statu": self.statu_sent_since(mark), "block": st.status_block}
        res = t.result()
        n_at_return = len(self.installs)
        self.loop.run_for(settle)  # late datagrams must have no effect
        return {"result": res, "installs": list(self.installs), "statu": self.statu_sent_since(mark),
                "block": st.status_block, "late_installs": len(self.installs) - n_at_return}

    def close(self):
        with self.loop.running():
            t = self.loop.create_task(self.tasks.gather(), name="HARNESS:gather")
        self.loop.run_for(5.0, t.done)
        self.loop.shutdown()


def _judge(obs, start, length, R, fault_free, before=CLIENT_BLOCK, spa=SPA_BLOCK, max_requests=None):
    """-> None or a (class, text) describing the violation."""
    res = obs["result"]
    blk = obs["block"]
    inst = obs["installs"]
    if res not in (True, False):
        return ("engine", f"transfer {res}")
    if len(blk) != 1024:
        return ("size", f"client block has {len(blk)} bytes after the transfer")
    if obs["statu"] > (max_requests if max_requests is not None else R):
        return ("requests", f"{obs['statu']} STATU requests sent, budget {max_requests or R}")
    if obs.get("late_installs"):
        return ("late", f"{obs['late_installs']} install(s) after the transfer returned")
    if res is True:
        if len(inst) != 1:
            return ("installs", f"success with {len(inst)} installs")
        _, off, data = inst[0]
        if off != start or len(data) < length or data != spa[start:start + len(data)]:
            return ("bytes", f"installed {len(data)} bytes at {off} that are not spa[{start}:{start+len(data)}]")
        for i in range(1024):
            if start <= i < start + length:
                if blk[i] != spa[i]:
                    return ("bytes", f"byte {i} of the requested range is {blk[i]}, spa has {spa[i]}")
            elif blk[i] != before[i] and blk[i] != spa[i]:
                return ("bytes", f"byte {i} changed to {blk[i]}: neither old {before[i]} nor spa {spa[i]}")
    else:
        if inst:
            return ("failed-install", f"failed transfer installed {len(inst)} segment set(s)")
        if blk != before:
            return ("failed-touch", "failed transfer changed the client block")
        if fault_free:
            return ("fault-free-fail", "fault-free transfer failed")
    return None


def _pairs_job(job):
    """Fault-free client-path transfers for a list of (start,length) on ONE connected spa."""
    pairs, kind = job
    bad = []
    if kind == "async":
        rig = ARig()
        for start, length in pairs:
            obs = rig.transfer(start, length, R=1, settle=0.3)
            why = _judge(obs, start, length, 1, True)
            if why:
                bad.append((start, length, why))
        rig.close()
    else:
        for start, length in pairs:
            obs = _threaded_transfer(Chooser(), start, length, N=0, fates=None)
            why = _judge(obs, start, length, 1, True, max_requests=1)
            if why:
                bad.append((start, length, why))
    return len(pairs), bad


# ------------------------------------------------------------------------------------------
# (a3) block contents: the framing layer parses datagrams with delimiters, so the one place where the
# transfer is NOT content-agnostic is a block that contains those delimiters.  Every token the packet
# layer, the verb dispatch or the text codecs give a meaning to is put at every alignment inside a
# 39-byte segment (and across a segment boundary).

TOKENS = [b"</DATAS>", b"<DATAS>", b"</PACKT>", b"<PACKT>", b"</SRCCN>", b"<SRCCN>", b"</DESCN>", b"<DESCN>",
          b"STATV", b"STATU", b"\n", b"\r\n", b"\x00" * 8, b"|", b",", b"</DATAS></PACKT>",
          b"<PACKT><SRCCN>X</SRCCN><DESCN>Y</DESCN><DATAS>STATV"]


def token_block(token, offset):
    blk = bytearray(SPA_BLOCK)
    blk[offset:offset + len(token)] = token
    return bytes(blk[:1024])


def tiled_block():
    blk = bytearray(SPA_BLOCK)
    o = 5
    for k, tok in enumerate(TOKENS):
        blk[o:o + len(tok)] = tok
        o += len(tok) + 17 + k
    assert o < 1024
    return bytes(blk)


def _content_job(job):
    items, kind = job
    bad = []
    rig = ARig() if kind == "async" else TClient(Chooser())
    for ti, off, start, length in items:
        spa = tiled_block() if ti < 0 else token_block(TOKENS[ti], off)
        cli = bytes(255 - b for b in spa)
        rig.use_blocks(spa, cli)
        if kind == "async":
            obs = rig.transfer(start, length, R=1, settle=0.3)
        else:
            obs = rig.transfer(start, length, N=0, fates=None)
        why = _judge(obs, start, length, 1, True, before=cli, spa=spa, max_requests=1)
        if why:
            bad.append((ti, off, start, length, why))
    if kind == "async":
        rig.close()
    return len(items), bad


def _content_items(step):
    items = [(-1, 0, 0, 1024), (-1, 0, 3, 700)]
    for ti, tok in enumerate(TOKENS):
        for a in range(0, SEG, step):
            items.append((ti, 117 + a, 117, 78 if len(tok) <= SEG else 117))
        items.append((ti, 500, 0, 1024))
    return items


# ------------------------------------------------------------------------------------------
# threaded client rig


class _Desc:
    identifier = SPA_ID
    client_identifier = CLIENT_ID
    destination = SPA_ADDR


class TClient:
    """One threaded client (real GeckoUdpSocket + GeckoStructure) against the simulator; several
    transfers can be made on the same structure."""

    def __init__(self, chooser):
        lib.reset_library()
        self.w = stepped.World(chooser)
        self.peer = SimPeer()
        self.peer.set_block(SPA_BLOCK)
        self.client_block = CLIENT_BLOCK
        self.w.add(self.peer.sim._socket, "sim", SPA_ADDR)
        self.client = GeckoUdpSocket()
        self.w.add(self.client, "client", ("10.0.0.2", 50001))
        self.client.add_receive_handler(GeckoPacketProtocolHandler(socket=self.client))
        self.st = GeckoStructure(lambda *a: None)
        self.installs = []
        orig = self.st.replace_status_block_segment

        def monitor(offset, segment):
            self.installs.append((self.w.clock(), offset, bytes(segment)))
            return orig(offset, segment)

        self.st.replace_status_block_segment = monitor

    def use_blocks(self, spa, client):
        self.peer.set_block(spa)
        self.client_block = client

    def transfer(self, start, length, N, fates, horizon=None):
        w, client, st = self.w, self.client, self.st
        st.set_status_block(self.client_block)
        del self.installs[:]
        mark = len(w.engines[1].mock.sent)
        nlog = len(lib.LOG.records)
        w.net.fates = fates
        parms = (SPA_ADDR[0], SPA_ADDR[1], SPA_ID, CLIENT_ID)
        w.net.clock.t = w.now()
        try:
            with stepped.patched_clock(w.clock):
                req = GeckoStatusBlockProtocolHandler.request(
                    client.get_and_increment_sequence_counter(False), start, length, parms=parms
                )
                req._retry_count = N
                st.retry_request(client, req, parms)
        except Exception as e:  # noqa - the library cannot even build/queue the request for this range
            return {"result": f"raised {e!r} while building the request", "installs": [], "statu": 0, "block": st.status_block,
                    "late_installs": 0, "errors": []}
        T = req._timeout_in_seconds
        hz = horizon or ((N + 1) * (T + nseg(length) * 0.05 + 1.0) + 10.0)
        t0 = w.now()
        w.run_until(t0 + hz, pred=lambda: req not in client._receive_handlers)
        done = req not in client._receive_handlers
        n_at = len(self.installs)
        w.run_until(w.now() + 1.0)
        statu = 0
        for (t, data, dest) in w.engines[1].mock.sent[mark:]:
            p = unframe(data)
            if p and p[2].startswith(b"STATU"):
                statu += 1
        result = (len(self.installs) > 0) if done else "hung"
        return {"result": result, "installs": list(self.installs), "statu": statu, "block": st.status_block,
                "late_installs": len(self.installs) - n_at if done else 0,
                "errors": [r for r in lib.LOG.records[nlog:] if "Too many retries" not in str(r)]}


def _threaded_transfer(chooser, start, length, N, fates, horizon=None):
    return TClient(chooser).transfer(start, length, N, fates, horizon)


def _adv_policy(name, i):
    def fates(src, dst, data):
        p = unframe(data)
        if p is None:
            return None
        c = p[2]
        if c.startswith(b"STATU"):
            return ["drop"] if name == "never-answer" else ["deliver"]
        if c.startswith(b"STATV"):
            idx = c[5]
            if name == "drop-from" and idx >= i:
                return ["drop"]
            if name == "drop" and idx == i:
                return ["drop"]
            if name == "dup" and idx == i:
                return ["dup"]
            if name == "swap" and idx == i:
                return ["delay:0.03"]
            if name == "stale" and idx == i:
                return ["delay:4.3"]
        return ["deliver"]

    return fates


def _sequence_job(job):
    """Transfer A under a stationary adversary (so it is abandoned or retried), then transfer B
    fault-free on the SAME structure / connection: B must install exactly the spa's bytes."""
    kind, (sa, la, Ra, adv), (sb, lb) = job
    if kind == "async":
        rig = ARig()
        rig.net.fates = _adv_policy(*adv)
        oa = rig.transfer(sa, la, Ra, settle=6.0)
        rig.net.fates = None
        ob = rig.transfer(sb, lb, 1, settle=1.0)
        rig.close()
    else:
        tc = TClient(Chooser())
        oa = tc.transfer(sa, la, Ra - 1, _adv_policy(*adv))
        ob = tc.transfer(sb, lb, 0, None)
    out = []
    wa = _judge(oa, sa, la, Ra, False, max_requests=Ra)
    if wa:
        out.append((f"C01|{kind}|{wa[0]}|adv={adv[0]}|len={la}|R={Ra}",
                    f"{kind} transfer start={sa} length={la} R={Ra} adversary={adv}: {wa[1]}",
                    {"mode": "sequence", "job": [kind, [sa, la, Ra, list(adv)], [sb, lb]]}))
    wb = _judge(ob, sb, lb, 1, True, max_requests=1)
    if wb:
        out.append((f"C01|{kind}|sequence|{wb[0]}",
                    f"{kind}: after transfer A (start={sa} length={la} R={Ra} adversary={adv}, result {oa['result']}) "
                    f"the fault-free transfer B start={sb} length={lb} on the same structure: {wb[1]}",
                    {"mode": "sequence", "job": [kind, [sa, la, Ra, list(adv)], [sb, lb]]}))
    return out, (oa["result"], ob["result"])


# ------------------------------------------------------------------------------------------
# (b) fault enumeration


def _fate_policy(client_addr):
    def fates(src, dst, data):
        p = unframe(data)
        if p is None:
            return None
        c = p[2]
        if c.startswith(b"STATU") or c.startswith(b"STATV"):
            return FATES
        return None

    return fates


def _fault_job(job):
    (kind, start, length, R), prefix = job

    def body(ch):
        if kind == "async":
            rig = ARig(ch)
            rig.net.fates = _fate_policy(rig.client_addr)
            obs = rig.transfer(start, length, R, settle=6.0)
            rig.close()
            maxreq = R
        else:
            obs = _threaded_transfer(ch, start, length, N=R - 1, fates=_fate_policy(None))
            maxreq = R
        fault_free = not any(c for k, n, c in ch.trace if k == "fate")
        why = _judge(obs, start, length, R, fault_free, max_requests=maxreq)
        viol = []
        if why:
            fv = [FATES[c] for k, n, c in ch.trace if k == "fate"]
            viol.append((
                f"C01|{kind}|{why[0]}|len={length}|R={R}",
                f"{kind} transfer start={start} length={length} R={R} fates={fv}: {why[1]}",
                {"mode": "fault", "kind": kind, "start": start, "length": length, "R": R,
                 "prefix": [list(p) for p in ch.trace]},
            ))
        return {"violations": viol, "obs": core.digest([obs["result"], obs["statu"], len(obs["installs"])]),
                "end": core.digest(obs["block"].hex())}

    return explore.run_with(prefix, body)


def _adversary_job(job):
    kind, start, length, R, adv = job
    name, i = adv
    fates = _adv_policy(name, i)

    if kind == "async":
        rig = ARig()
        rig.net.fates = fates
        obs = rig.transfer(start, length, R, settle=6.0)
        rig.close()
    else:
        obs = _threaded_transfer(Chooser(), start, length, N=R - 1, fates=fates)
    why = _judge(obs, start, length, R, False, max_requests=R)
    # stationary loss of a segment / of every request can never succeed
    if why is None and name in ("drop", "never-answer") and obs["result"] is not False:
        why = ("adversary", f"transfer reported success although segment {i} never arrives")
    if why is None and name in ("drop", "never-answer") and obs["statu"] != R:
        why = ("requests", f"{obs['statu']} requests sent against a permanently failing peer, configured {R}")
    if why:
        return [(f"C01|{kind}|{why[0]}|adv={name}|len={length}|R={R}",
                 f"{kind} transfer start={start} length={length} R={R} adversary={name}@{i}: {why[1]}",
                 {"mode": "adversary", "kind": kind, "start": start, "length": length, "R": R, "adv": [name, i]})], obs["result"]
    return [], obs["result"]


# ------------------------------------------------------------------------------------------


def _quick_pairs():
    pairs = set()
    for length in range(1, 1025):
        pairs.add((0, length))
    for length in (1, 38, 39, 40, 77, 78, 79, 117):
        for start in range(0, 1024 - length + 1):
            pairs.add((start, length))
    for start in range(900, 1024):
        pairs.add((start, 1024 - start))
    return sorted(pairs)


def _all_pairs():
    return [(s, l) for s in range(1024) for l in range(1, 1024 - s + 1)]


def _split(items, n):
    k = max(1, -(-len(items) // n))
    return [items[i:i + k] for i in range(0, len(items), k)]


def _probe():
    """The fault-free handshake ends with a full 1024-byte transfer from the bundled simulator.
    If that transfer (and only that) fails, the property's fault-free clause is violated."""
    try:
        rig = ARig()
        rig.close()
    except core.RigFailure as e:
        if e.stage == "initial-transfer":
            return (f"C01|fault-free|handshake-initial-transfer", f"the fault-free initial full-block transfer of the "
                    f"handshake fails against the bundled simulator: {e.detail}", {"mode": "probe"})
        raise core.HarnessError(f"C01: cannot set up a connection: {e}")
    return None


def run(ctx):
    evals = 0
    nontrivial = set()
    v = _probe()
    if v:
        ctx.violation(*v)
        ctx.set("evaluations", 1)
        ctx.set("distinct_nontrivial", 2)
        ctx.set("rule", "probe only: the fault-free handshake transfer already fails")
        return
    # (a1) chain level, all pairs
    chunks = [list(range(i, 1024, 64)) for i in range(64)]
    total = 0
    for n, bad in core.pimap(ctx, _chain_job, chunks):
        total += n
        for start, length, why in bad:
            cls = "mult39" if length % SEG == 0 else "other"
            ctx.violation(f"C01|chain|{cls}", f"simulator chain for start={start} length={length}: {why}",
                          {"mode": "chain", "start": start, "length": length})
    ctx.set("chain_pairs", total)
    evals += total
    ctx.log(f"chain level: {total} (start,length) pairs")

    # (a2) full client path, fault-free
    pairs = _quick_pairs() if ctx.quick else _all_pairs()
    if ctx.quick:
        tp = [p for p in pairs if p[1] <= 200 and p[0] % 7 == 0][:400]
    else:
        tp = [p for p in pairs if (p[0] * 31 + p[1]) % 29 == 0]
    jobs = [(c, "async") for c in _split(pairs, ctx.workers * 4)] + [(c, "threaded") for c in _split(tp, ctx.workers * 2)]
    done = 0
    for n, bad in core.pimap(ctx, _pairs_job, jobs):
        done += n
        for start, length, why in bad:
            cls = "mult39" if length % SEG == 0 else "other"
            ctx.violation(f"C01|fault-free|{why[0]}|{cls}", f"fault-free transfer start={start} length={length}: {why[1]}",
                          {"mode": "pair", "start": start, "length": length})
    ctx.set("client_path_fault_free_transfers", done)
    ctx.set("client_path_async_pairs", len(pairs))
    ctx.set("client_path_threaded_pairs", len(tp))
    evals += done
    nontrivial.update(("pair", p) for p in pairs)
    ctx.log(f"client path fault-free: {len(pairs)} async + {len(tp)} threaded transfers")

    # (a3) block contents made of the framing layer's own delimiters
    ci_a = _content_items(1)
    ci_t = _content_items(3 if ctx.quick else 1)
    jobs = [(c, "async") for c in _split(ci_a, ctx.workers)] + [(c, "threaded") for c in _split(ci_t, ctx.workers)]
    done = 0
    for n, bad in core.pimap(ctx, _content_job, jobs):
        done += n
        for ti, off, start, length, why in bad:
            tok = "tiled" if ti < 0 else TOKENS[ti].decode("latin1")
            ctx.violation(f"C01|content|{why[0]}|token={tok!r}", f"fault-free transfer start={start} length={length} of a "
                          f"block containing {tok!r} at offset {off}: {why[1]}",
                          {"mode": "content", "token": ti, "offset": off, "start": start, "length": length})
    ctx.set("content_transfers", done)
    ctx.set("content_tokens", len(TOKENS))
    evals += done
    nontrivial.update(("content", i) for i in ci_a)
    ctx.log(f"block contents: {len(TOKENS)} delimiter tokens x alignments: {len(ci_a)} async + {len(ci_t)} threaded transfers")

    # (b1) ALL fate vectors on 1..3 segment transfers (unbounded deviations = the whole product)
    plan = [((100, 20), 2, 64), ((985, 39), 2, 64), ((100, 60), 1, 64)] if ctx.quick else [
        ((100, 20), 3, 64), ((985, 39), 3, 64), ((100, 60), 2, 64), ((500, 100), 1, 64), ((500, 100), 2, 3)]
    for kind in ("async", "threaded"):
        for (start, length), R, bnd in plan:
            st = explore.explore(ctx, _fault_job, (kind, start, length, R), bound=bnd, choice_kinds={"fate"},
                                 label=f"fates {kind} len={length} R={R} dev<={bnd}", max_execs=1500000)
            explore.fold_stats(ctx, st, prefix=f"fates_{kind}_len{length}_R{R}_")
            evals += st["executions"]
            nontrivial.update(("end", kind, length, e) for e in st["end"])
            nontrivial.update(("obs", kind, length, e) for e in st["obs"])
            ctx.log(f"fate vectors {kind} start={start} len={length} R={R} dev<={bnd}"
                    f"{' (= all vectors)' if bnd == 64 else ''}: {st['executions']} executions, {len(st['obs'])} outcomes")
            if len(st["obs"]) < 2 and not st["stopped_on_violation"]:
                raise core.HarnessError("fault enumeration produced a single outcome - vacuous")

    # (b2) deviation-bounded on the full 27-segment transfer, R=10
    bound = 2 if ctx.quick else 3
    for kind in ("async", "threaded"):
        st = explore.explore(ctx, _fault_job, (kind, 0, 1024, 10), bound=bound, choice_kinds={"fate"},
                             label=f"fates-dev {kind} full", max_execs=250000)
        explore.fold_stats(ctx, st, prefix=f"dev_fates_{kind}_full_")
        evals += st["executions"]
        nontrivial.update(("end-full", kind, e) for e in st["end"])
        ctx.log(f"dev<={bound} fate vectors {kind} full transfer R=10: {st['executions']} executions")

    # (b3) stationary adversaries with the real retry budget
    advs = [("never-answer", 0)]
    for i in (range(0, 27) if not ctx.quick else (0, 1, 13, 25, 26)):
        advs += [("drop", i), ("dup", i), ("swap", i), ("stale", i)]
    jobs = [(kind, 0, 1024, 10, a) for kind in ("async", "threaded") for a in advs]
    jobs += [(kind, 100, 60, 3, a) for kind in ("async", "threaded") for a in
             [("never-answer", 0), ("drop", 0), ("drop", 1), ("dup", 0), ("dup", 1), ("swap", 0), ("stale", 0), ("stale", 1)]]
    outcomes = {}
    for (viol, res), job in zip(core.pmap(ctx, _adversary_job, jobs), jobs):
        ctx.merge_violations(viol)
        outcomes.setdefault(f"{job[0]}:{job[4][0]}", set()).add(repr(res))
        nontrivial.add(("adv",) + tuple(map(str, job)))
    evals += len(jobs)
    ctx.set("adversary_runs", len(jobs))
    ctx.set("adversary_outcomes", {k: sorted(v) for k, v in outcomes.items()})

    # (c) non-initial states: a second transfer on a structure whose previous transfer was abandoned,
    #     retried or completed under faults
    As = []
    for la in (100, 200):
        k = nseg(la)
        for R in (1, 2):
            for adv in [("drop-from", 1), ("drop-from", k - 1), ("drop", 0), ("drop", k - 1), ("swap", 0), ("swap", k - 2),
                        ("dup", k - 1), ("stale", 1), ("never-answer", 0)]:
                As.append((300, la, R, adv))
    Bs = [(300, 200), (0, 120), (320, 39), (600, 424)]
    sjobs = [(kind, a, b) for kind in ("async", "threaded") for a in As for b in Bs]
    souts = set()
    for (viol, res), job in zip(core.pmap(ctx, _sequence_job, sjobs), sjobs):
        ctx.merge_violations(viol)
        souts.add((job[0], repr(res)))
        nontrivial.add(("seq",) + tuple(map(str, job)))
    evals += 2 * len(sjobs)
    ctx.set("sequence_runs", len(sjobs))
    ctx.set("sequence_outcomes", sorted(map(str, souts)))
    ctx.log(f"two-transfer sequences: {len(sjobs)} runs")

    ctx.set("evaluations", evals)
    ctx.set("distinct_nontrivial", len(nontrivial))
    ctx.set("rule", "cases = (start,length) pairs at chain level and on the client path, fate vectors "
            "(one fate per STATU/STATV datagram from {deliver,drop,dup,delay-past-successor,delay-into-next-attempt}) "
            "and stationary adversaries; distinct_nontrivial counts distinct client-path pairs + distinct end "
            "blocks/outcomes reached under faults + adversary scripts (chain-level pairs are not counted)")
    ctx.sample({"transfer": {"start": 100, "length": 60, "R": 2}, "fates": ["deliver", "drop", "dup"],
                "oracle": "True => one install == spa[start:start+n]; False => block untouched; STATU<=R"})
    ctx.sample({"adversary": "always drop segment 13 of the full transfer, R=10", "expect": "False, 10 requests, block untouched"})
    ctx.set("exhaustive", not ctx.caps_hit)
    ctx.assume("block contents: one pattern block whose neighbouring 39-byte slices all differ (all byte values 0..250), "
               "client = complement, plus blocks carrying each framing/verb delimiter at every alignment in a segment; "
               "beyond the delimiters the transfer code only slices and joins")
    ctx.assume("delays are bounded below the gap between distinct transfers (as the quantifier says)")


def replay(ctx, data):
    mode = data["mode"]
    if mode == "probe":
        v = _probe()
        if v:
            ctx.violation(*v)
    elif mode == "chain":
        lib.reset_library()
        peer = SimPeer()
        peer.set_block(SPA_BLOCK)
        why = chain_violation(peer.sim, data["start"], data["length"])
        if why:
            cls = "mult39" if data["length"] % SEG == 0 else "other"
            ctx.violation(f"C01|chain|{cls}", why, data)
    elif mode == "pair":
        for kind in ("async", "threaded"):
            n, bad = _pairs_job(([(data["start"], data["length"])], kind))
            for start, length, why in bad:
                cls = "mult39" if length % SEG == 0 else "other"
                ctx.violation(f"C01|fault-free|{why[0]}|{cls}", why[1], data)
    elif mode == "content":
        for kind in ("async", "threaded"):
            n, bad = _content_job(([(data["token"], data["offset"], data["start"], data["length"])], kind))
            for ti, off, start, length, why in bad:
                tok = "tiled" if ti < 0 else TOKENS[ti].decode("latin1")
                ctx.violation(f"C01|content|{why[0]}|token={tok!r}", why[1], data)
    elif mode == "fault":
        res = _fault_job(((data["kind"], data["start"], data["length"], data["R"]), [tuple(p) for p in data["prefix"]]))
        ctx.merge_violations(res["violations"])
    elif mode == "sequence":
        j = data["job"]
        v, _ = _sequence_job((j[0], (j[1][0], j[1][1], j[1][2], tuple(j[1][3])), tuple(j[2])))
        ctx.merge_violations(v)
    elif mode == "adversary":
        v, _ = _adversary_job((data["kind"], data["start"], data["length"], data["R"], tuple(data["adv"])))
        ctx.merge_violations(v)
    ctx.set("evaluations", 1)
    ctx.set("distinct_nontrivial", 2)
    ctx.set("rule", "replay of one recorded case")
