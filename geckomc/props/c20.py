"""C20 - threaded engine: FIFO paced sends, first-match dispatch, bounded handler life.

Seam: the real GeckoUdpSocket._thread_func run iteration by iteration (StepEvent) on a mock socket in
virtual time; the blocking GeckoSpa and the real simulator as two such engines (stepped.TRig).

 (1) dispatch: ALL registration orders of 3 overlapping handlers x ALL datagram sequences of length <= 3 over
     a 4-letter alphabet, with handlers that raise in can_handle / handle / handled: each datagram goes to
     the first registered handler accepting it; the engine keeps running after exceptions.
 (2) timeout/retry: T in {0.01, 0.05, 1}, N in 0..3, reply arriving after the k-th transmission for every k
     in 0..N or never: unanswered => exactly N retransmissions then removed; answered => removed with no
     further transmission.
 (3) send queue: up to 4 queued sends enqueued on a time grid while incoming traffic keeps the loop spinning
     fast: FIFO order, never two sends closer than 1/50 s.
 (4) handshake under loss: every vector of 'lost transmissions per step' (version, channel, config file,
     status block) from a grid inside the retry budget => connected with an identical block; one step's
     budget exhausted => never connected.
 (5) queue_send from two real threads against the engine's send step under the controlled scheduler (E5),
     pre-emption bounded: nothing lost, nothing sent twice, per-thread FIFO.
"""
from __future__ import annotations

import itertools

from .. import core, explore, lib, stepped, threads
from ..peers import SPA_ADDR, SPA_ID, unframe
from ..refmodels import wire
from ..vloop import Chooser

LEVEL = "model_checking"

from geckolib.driver import (  # noqa: E402
    GeckoPacketProtocolHandler,
    GeckoUdpProtocolHandler,
    GeckoUdpSocket,
    GeckoVersionProtocolHandler,
)

PEER = ("10.0.0.9", 10022)
CLIENT = ("10.0.0.2", 50001)


class TH(GeckoUdpProtocolHandler):
    """Test handler: accepts datagrams whose first byte is in `accepts`; may raise."""

    def __init__(self, name, accepts, raise_in=None, log=None):
        super().__init__()
        self.name = name
        self.accepts = accepts
        self.raise_in = raise_in
        self.log = log

    def can_handle(self, b, sender):
        if self.raise_in == "can_handle" and b[:1] in self.accepts:
            raise RuntimeError("can_handle failed (injected)")
        return b[:1] in self.accepts

    def handle(self, b, sender):
        self.log.append((self.name, b))
        if self.raise_in == "handle":
            raise RuntimeError("handle failed (injected)")

    def handled(self, sender):
        if self.raise_in == "handled":
            raise RuntimeError("handled failed (injected)")


def _engine(sock_obj):
    w = stepped.World(Chooser())
    e = w.add(sock_obj, "client", CLIENT)
    return w, e


# ---- (1) dispatch ---------------------------------------------------------------------------------
HSPEC = [("H1", (b"a", b"b")), ("H2", (b"b", b"c")), ("H3", (b"a", b"c", b"d"))]
ALPHA = [b"a", b"b", b"c", b"d", b"z"]
HSPEC_IDX = {name: i for i, (name, _) in enumerate(HSPEC)}


def _dispatch_job(job):
    order, raiser = job[:2]  # order: permutation of 0..2; raiser: (handler index or None, where)
    timed = job[2] if len(job) > 2 else ()  # handler indices that are pending requests (timeout 5 s, no retries)
    n = 0
    bad = None
    for L in (1, 2, 3):
        for seq in itertools.product(ALPHA, repeat=L):
            n += 1
            lib.reset_library()
            sock = GeckoUdpSocket()
            w, e = _engine(sock)
            log = []
            hs = []
            for idx in order:
                name, acc = HSPEC[idx]
                h = TH(name, acc, raise_in=(raiser[1] if raiser[0] == idx else None), log=log)
                if idx in timed:
                    with stepped.patched_clock(w.clock):
                        h._timeout_in_seconds = 5.0
                        h._retry_count = 0
                        h._reset_timeout()
                hs.append(h)
                sock.add_receive_handler(h)
            for k, d in enumerate(seq):
                w.net.send(PEER, CLIENT, d + bytes([k]))
            try:
                w.run_until(w.now() + 0.5)
            except Exception as ex:  # noqa  - the real thread would have died here
                bad = ("engine-died", f"handlers {[h.name for h in hs]} raiser {raiser} datagrams {[bytes(s) for s in seq]}: "
                                      f"{ex!r} escaped the engine loop")
                break
            # expected: first registered accepting handler (a handler raising in can_handle aborts that datagram)
            exp = []
            for k, d in enumerate(seq):
                for h in hs:
                    if h.raise_in == "can_handle" and d in h.accepts:
                        break
                    if d in h.accepts:
                        exp.append((h.name, d + bytes([k])))
                        break
            if log != exp:
                bad = ("dispatch", f"handlers {[h.name + ('(pending request)' if HSPEC_IDX[h.name] in timed else '') for h in hs]} raiser {raiser} datagrams {[bytes(s) for s in seq]}: delivered {log}, expected {exp}")
                break
            if e.mock.inbox:
                bad = ("stalled", f"engine stopped consuming datagrams after an exception (raiser {raiser})")
                break
        if bad:
            break
    return n, bad


# ---- (2) timeout / retry ---------------------------------------------------------------------------
def _retry_job(job):
    T, N, k, delta = job[:4]  # reply leaves `delta` s after the (k+1)-th transmission (k = 0..N), or k = None: never
    backlog = job[4] if len(job) > 4 else 0  # other datagrams already waiting in the send queue (20 ms each)
    refuse = job[5] if len(job) > 5 else 0  # the OS refuses the first `refuse` sends of the request (sendto raises)
    lib.reset_library()
    sock = GeckoUdpSocket()
    w, e = _engine(sock)
    sock.add_receive_handler(GeckoPacketProtocolHandler(socket=sock))
    parms = (PEER[0], PEER[1], SPA_ID, b"IOSx")
    with stepped.patched_clock(w.clock):
        for i in range(backlog):
            sock.queue_send(GeckoPacketProtocolHandler(content=b"BACKL" + bytes([i]), parms=parms), parms)
    state = {"tx": 0, "answered": False}
    orig_send = w.net.send

    def send(src, dst, data):
        # the peer: answers the (k+1)-th AVERS after `delta` seconds (so the answer can land inside the very
        # receive wait during which the request's timeout elapses)
        orig_send(src, dst, data)
        if src == CLIENT and b"AVERS" in data:
            state["tx"] += 1
            if k is not None and not state["answered"] and state["tx"] == k + 1:
                state["answered"] = True
                w.net._seq += 1
                w.net.socks[CLIENT].inbox.append((w.clock() + delta, w.net._seq,
                                                  wire.frame(SPA_ID, b"IOSx", wire.svers((1, 2, 3), (4, 5, 6))), PEER))

    w.net.send = send
    if refuse:
        left = [refuse]

        def fail_send(data, dest):
            if b"AVERS" in data and left[0] > 0:
                left[0] -= 1
                return True
            return False

        e.mock.fail_send = fail_send
    with stepped.patched_clock(w.clock):
        h = GeckoVersionProtocolHandler.request(1, parms=parms)
        h._timeout_in_seconds = T
        h._retry_count = N
        h._reset_timeout()
        sock.add_receive_handler(h)
        sock.queue_send(h, parms)
    t_created = w.now()
    t_end = w.now() + (N + 2) * (T + 0.2) + 2.0 + backlog * 0.05
    removed_at = None
    tx_at_removal = None
    handled_at = None
    tx_at_handled = None
    while w.now() < t_end:
        w.run_until(w.now() + 0.0005)
        tx = sum(1 for (t, d, dest) in e.mock.sent if b"AVERS" in d)
        if handled_at is None and h.en_build is not None:
            handled_at = w.now()
            tx_at_handled = tx
        if removed_at is None and h not in sock._receive_handlers:
            removed_at = w.now()
            tx_at_removal = tx
    tx = sum(1 for (t, d, dest) in e.mock.sent if b"AVERS" in d)
    why = None
    if refuse:
        # refused sends are attempts too: an unanswered request is attempted 1+N times in all and then removed
        att = tx + len(e.mock.refused)
        case = f"T={T} N={N} unanswered, the first {refuse} send(s) refused by the OS"
        logged = [r for r in lib.LOG.records if "Exception during send processing" not in str(r)]
        if h in sock._receive_handlers:
            return ("not-removed", f"{case}: handler still registered at the end ({att} attempts)")
        if att != 1 + N:
            return ("retransmissions", f"{case}: {att} send attempts ({tx} on the wire), expected exactly {1 + N}")
        if logged:
            return ("engine", f"{case}: errors {logged[:2]}")
        return None
    case = f"T={T} N={N} reply={'never' if k is None else f'{delta}s after transmission {k+1}'}" + (
        f" behind {backlog} queued datagrams" if backlog else "")
    if h in sock._receive_handlers:
        why = ("not-removed", f"{case}: handler still registered at the end")
    elif tx > 1 + N:
        why = ("retransmissions", f"{case}: {tx} transmissions, at most {1 + N} allowed")
    elif handled_at is None and tx != 1 + N:
        # never answered in time (no reply, or it arrived after the budget was exhausted and the handler removed)
        why = ("retransmissions", f"{case}: unanswered, {tx} transmissions, expected exactly {1 + N}")
    elif handled_at is None and k is not None and T >= 0.5 and delta < T:
        why = ("not-handled", f"{case}: the reply was never handled although it arrived within the timeout")
    elif handled_at is not None and tx != tx_at_handled:
        why = ("after-answer", f"{case}: {tx - tx_at_handled} transmission(s) after the reply had been handled")
    elif tx != tx_at_removal:
        why = ("after-removal", f"{case}: transmitted after the handler was removed")
    elif lib.LOG.records:
        why = ("engine", f"errors: {lib.LOG.records[:2]}")
    first_tx = [t for (t, d, dest) in e.mock.sent if b"AVERS" in d][:1]
    if why and backlog and (not first_tx or first_tx[0] - t_created >= T):
        # the request's time-out elapsed while it was still waiting for its FIRST transmission
        why = ("timed-out-before-first-transmission", why[1] + f" [{why[0]}]")
    return why


# ---- (3) send queue -----------------------------------------------------------------------------
def _sendq_job(job):
    times, traffic = job[:2]
    pattern = job[2] if len(job) > 2 else None  # which handler OBJECT each queue_send call uses (None: all distinct)
    lib.reset_library()
    sock = GeckoUdpSocket()
    w, e = _engine(sock)
    t0 = w.now()
    parms = (PEER[0], PEER[1], SPA_ID, b"IOSx")
    if pattern is not None:
        objs = {}
        for i, at in enumerate(times):
            h = objs.setdefault(pattern[i], GeckoPacketProtocolHandler(content=b"MSG" + bytes([pattern[i]]), parms=parms))
            w.at(t0 + at, (lambda h=h: sock.queue_send(h, parms)))
        if traffic:
            for j in range(400):
                w.net.clock.t = t0
                w.net.send(PEER, CLIENT, b"noise")
                w.net.socks[CLIENT].inbox[-1] = (t0 + j * 0.0013, j, b"noise", PEER)
        w.run_until(t0 + 1.5)
        sent = [(t - t0, d) for (t, d, dest) in e.mock.sent if b"MSG" in d]
        order = [unframe(d)[2][3] for t, d in sent]
        exp = [pattern[i] for i in sorted(range(len(times)), key=lambda i: (times[i], i))]
        if order != exp:
            return ("fifo", f"queue_send calls at {times} with handler objects {list(pattern)} (the same object queued more than once): "
                            f"wire carries {order}, expected one datagram per call: {exp}")
        for (ta, _), (tb, _) in zip(sent, sent[1:]):
            if tb - ta < 1.0 / 50 - 1e-9:
                return ("throttle", f"enqueue times {times}: two sends {tb - ta:.4f}s apart (< 1/50 s)")
        return None
    hs = []
    for i, at in enumerate(times):
        h = GeckoPacketProtocolHandler(content=b"MSG" + bytes([i]), parms=parms)
        hs.append(h)
        w.at(t0 + at, (lambda h=h: sock.queue_send(h, parms)))
    if traffic:
        for j in range(400):
            w.net.clock.t = t0
            w.net.send(PEER, CLIENT, b"noise")
            w.net.socks[CLIENT].inbox[-1] = (t0 + j * 0.0013, j, b"noise", PEER)
    w.run_until(t0 + 1.5)
    sent = [(t - t0, d) for (t, d, dest) in e.mock.sent if b"MSG" in d]
    order = [unframe(d)[2][3] for t, d in sent]
    exp = sorted(range(len(times)), key=lambda i: (times[i], i))
    if order != exp:
        return ("fifo", f"enqueue times {times}: sent order {order}, expected {exp}")
    for (ta, _), (tb, _) in zip(sent, sent[1:]):
        if tb - ta < 1.0 / 50 - 1e-9:
            return ("throttle", f"enqueue times {times}: two sends {tb - ta:.4f}s apart (< 1/50 s)")
    for (t, _), i in zip(sent, exp):
        if t < times[i] - 1e-9:
            return ("time-travel", "sent before it was queued")
    return None


def _fifo_retry_job(job):
    """FIFO also holds for retransmissions: a request that times out while other sends are still waiting goes to the
    BACK of the queue.  Oracle: the wire order equals the order of the queue_send calls (observed from outside)."""
    T, N, nback, gap = job
    lib.reset_library()
    sock = GeckoUdpSocket()
    w, e = _engine(sock)
    sock.add_receive_handler(GeckoPacketProtocolHandler(socket=sock))
    parms = (PEER[0], PEER[1], SPA_ID, b"IOSx")
    calls = []
    orig_q = sock.queue_send

    def queue_send(handler, dest):
        calls.append(unframe(handler.send_bytes)[2][:6])
        return orig_q(handler, dest)

    sock.queue_send = queue_send
    t0 = w.now()
    with stepped.patched_clock(w.clock):
        h = GeckoVersionProtocolHandler.request(1, parms=parms)
        h._timeout_in_seconds = T
        h._retry_count = N
        h._reset_timeout()
        sock.add_receive_handler(h)
        sock.queue_send(h, parms)
    for i in range(nback):
        hb = GeckoPacketProtocolHandler(content=b"BACK" + bytes([65 + i]) + b"!", parms=parms)
        w.at(t0 + gap * (i + 1), (lambda hb=hb: sock.queue_send(hb, parms)))
    w.run_until(t0 + (N + 2) * (T + 0.3) + nback * 0.05 + 2.0)
    wire_ = [unframe(d)[2][:6] for (t, d, dest) in e.mock.sent]
    if wire_ != calls:
        return ("fifo", f"request T={T} N={N} with {nback} other sends queued {gap}s apart: wire order {[x[:5] for x in wire_]}, "
                        f"queue_send calls were made in the order {[x[:5] for x in calls]}")
    if lib.LOG.records:
        return ("engine", f"errors: {lib.LOG.records[:2]}")
    return None


# ---- (4) handshake under loss --------------------------------------------------------------------
STEPS = [b"AVERS", b"CURCH", b"SFILE", b"STATU"]


def _handshake_job(vec):
    seg_loss = None
    if len(vec) > 4:
        vec, seg_loss = vec[:4], vec[4]  # seg_loss = (k, times): the k-th STATV segment is lost the first `times` times
    counts = {v: 0 for v in STEPS}
    seg_seen = {}

    def fates(src, dst, data):
        if dst != SPA_ADDR:
            if seg_loss is not None and src == SPA_ADDR:
                p = unframe(data)
                if p and p[2].startswith(b"STATV") and p[2][5] == seg_loss[0]:
                    seg_seen[p[2][5]] = seg_seen.get(p[2][5], 0) + 1
                    if seg_seen[p[2][5]] <= seg_loss[1]:
                        return ["drop"]
            return None
        p = unframe(data)
        if p is None:
            return None
        verb = p[2][:5]
        if verb in counts:
            i = STEPS.index(verb)
            counts[verb] += 1
            if counts[verb] <= vec[i]:
                return ["drop"]
        return None

    rig = stepped.TRig(Chooser(), fates=fates)
    budget = 10  # PROTOCOL_RETRY_COUNT retransmissions => 11 transmissions
    feasible = all(v <= budget for v in vec)
    horizon = sum(v * 4.3 for v in vec) + 30.0 + (seg_loss[1] * 6.0 if seg_loss else 0.0)
    ok = rig.connect(timeout=horizon)
    why = None
    if feasible:
        if not ok:
            why = ("not-connected", f"losses per step {vec} (inside the retry budget): not connected after {horizon:.0f}s; sent {counts}")
        elif rig.spa.struct.status_block != rig.peer.block:
            why = ("block", f"losses per step {vec}: connected but the block differs from the simulator's")
        else:
            try:
                with stepped.patched_clock(rig.world.clock):
                    if rig.spa.is_connected is not True:
                        why = ("flag", "is_connected is not True after the handshake")
            except Exception as e:  # noqa
                why = ("flag", f"is_connected raised {e!r} after a completed handshake")
    else:
        if ok:
            why = ("budget", f"losses per step {vec} exceed the retry budget but the client connected")
        for i, v in enumerate(STEPS):
            if vec[i] > budget and counts[v] != budget + 1:
                why = why or ("budget", f"step {v.decode()}: {counts[v]} transmissions, budget {budget + 1}")
    return why, ok


# ---- (5) real threads ----------------------------------------------------------------------------
def _threads_job(job):
    (nq, nproc), prefix = job

    def body(ch):
        lib.reset_library()
        sock = GeckoUdpSocket()
        sched = threads.Sched(ch, ("geckolib/driver/udp_socket.py",))
        sock._lock = threads.CoopLock(sched)
        sock._SENDING_THROTTLE_RATE_PER_SECOND = 1e12
        sent = []

        class S:
            def sendto(self, data, dest):
                sent.append(data)

        sock._socket = S()
        parms = (PEER[0], PEER[1], SPA_ID, b"IOSx")

        def producer(tid):
            def run():
                for i in range(nq):
                    sock.queue_send(GeckoPacketProtocolHandler(content=bytes([65 + tid, 48 + i]), parms=parms), parms)
            return run

        def consumer():
            for _ in range(nproc):
                sock._process_send_requests()

        sched.run([producer(0), producer(1), consumer])
        # drain what is left, sequentially
        for _ in range(2 * nq + 1):
            sock._process_send_requests()
        got = [unframe(d)[2] for d in sent]
        viol = []
        exp = sorted(bytes([65 + t, 48 + i]) for t in (0, 1) for i in range(nq))
        why = None
        if sched.deadlock:
            why = "deadlock"
        elif sorted(got) != exp:
            why = f"queued {exp}, sent {got}"
        else:
            for t in (0, 1):
                mine = [g for g in got if g[0] == 65 + t]
                if mine != sorted(mine):
                    why = f"thread {t}'s sends left out of order: {mine}"
        if why:
            viol.append((f"C20|threads|{'deadlock' if sched.deadlock else 'queue'}", f"2 producers x {nq} sends, schedule {sched.schedule}: {why}",
                         {"mode": "threads", "nq": nq, "nproc": nproc, "prefix": [list(p) for p in ch.trace]}))
        return {"violations": viol, "obs": core.digest(got), "end": core.digest(sched.schedule)}

    return explore.run_with(prefix, body)


def _cleanup_threads_job(job):
    (n_flagged, where), prefix = job

    def body(ch):
        lib.reset_library()
        sock = GeckoUdpSocket()
        sched = threads.Sched(ch, ("geckolib/driver/udp_socket.py",))
        sock._lock = threads.CoopLock(sched)
        log = []
        keep = TH("keep", (b"k",), log=log)
        flagged = [TH(f"gone{i}", (b"g",), log=log) for i in range(n_flagged)]
        for h in flagged:
            h._should_remove_handler = True
        order = [keep] + flagged if where == "after" else flagged + [keep]
        for h in order:
            sock.add_receive_handler(h)
        late = TH("late", (b"l",), log=log)

        def cleaner():
            sock._cleanup_handlers()

        def adder():
            sock.add_receive_handler(late)

        sched.run([cleaner, adder])
        names = [h.name for h in sock._receive_handlers]
        viol = []
        why = None
        if sched.deadlock:
            why = "deadlock"
        elif "late" not in names:
            why = f"a handler registered while the cleanup pass was retiring others has vanished (handlers {names})"
        elif "keep" not in names or any(n.startswith("gone") for n in names):
            why = f"cleanup result wrong: {names}"
        else:
            sock.dispatch_recevied_data(b"l1", PEER)
            sock.dispatch_recevied_data(b"k1", PEER)
            if log != [("late", b"l1"), ("keep", b"k1")]:
                why = f"dispatch after the race delivered {log}"
        if why:
            viol.append(("C20|threads|handler-list", f"cleanup of {n_flagged} flagged handler(s) racing add_receive_handler, schedule {sched.schedule}: {why}",
                         {"mode": "cleanup-threads", "n": n_flagged, "where": where, "prefix": [list(p) for p in ch.trace]}))
        return {"violations": viol, "obs": core.digest(names), "end": core.digest(sched.schedule)}

    return explore.run_with(prefix, body)


def run(ctx):
    trans = 0
    states = set()
    # (1)
    raisers = [(None, None)] + [(i, w) for i in range(3) for w in ("can_handle", "handle", "handled")]
    jobs = [(order, r) for order in itertools.permutations(range(3)) for r in raisers]
    # the same with every subset of the handlers being pending requests (a time-out set), no raiser
    jobs += [(order, (None, None), tm) for order in itertools.permutations(range(3))
             for k in (1, 2, 3) for tm in itertools.combinations(range(3), k)]
    for (n, bad), job in zip(core.pmap(ctx, _dispatch_job, jobs, chunksize=1), jobs):
        trans += n
        states.add(("dispatch", job))
        if bad:
            ctx.violation(f"C20|{bad[0]}|raiser={job[1][1]}", bad[1], {"mode": "dispatch", "order": list(job[0]), "raiser": list(job[1]), "timed": list(job[2]) if len(job) > 2 else []})
    ctx.log(f"(1) dispatch: {len(jobs)} handler configurations x 155 datagram sequences")
    # (2)
    jobs = [(T, N, k, d) for T in (0.01, 0.03, 0.05, 1.0) for N in range(4) for k in list(range(N + 1)) + [None]
            for d in ((0.002, 0.02, 0.045, 0.06) if k is not None else (0.0,))]
    # longer budgets, unanswered or answered late in the budget (time-outs shorter than / comparable with a throttle slot)
    jobs += [(T, N, k, 0.002) for T in (0.005, 0.01, 0.02, 0.03, 0.05) for N in (4, 5, 6, 8) for k in (None, N - 1, N)]
    # the OS refuses the first send(s) of the request
    jobs += [(T, N, None, 0.0, 0, k) for T in (0.05, 1.0) for N in (1, 2, 3) for k in (1, 2) if k <= N]
    # the request waits behind a send backlog (shorter and longer than its time-out)
    jobs += [(T, N, k, 0.002, B) for T in (0.03, 0.05, 1.0) for N in (1, 2) for k in (None, N) for B in (1, 3, 10)]
    for why, job in zip(core.pmap(ctx, _retry_job, jobs, chunksize=1), jobs):
        trans += 1
        states.add(("retry", job))
        if why:
            ctx.violation(f"C20|retry|{why[0]}", why[1], {"mode": "retry", "job": list(job)})
    ctx.log(f"(2) timeout/retry: {len(jobs)} (T, N, reply point) cases")
    # (3)
    grid = [0.0, 0.01, 0.02, 0.05]
    jobs = []
    for n in (1, 2, 3, 4):
        for times in itertools.product(grid, repeat=n):
            if list(times) == sorted(times):
                jobs.append((times, True))
                if n <= 2:
                    jobs.append((times, False))
    # the same handler OBJECT queued more than once (what a retry does, and what clients do with a cached request)
    for pat in ((0, 0), (0, 1, 0), (0, 0, 0), (0, 1, 0, 1), (0, 1, 1, 0), (0, 0, 1, 1)):
        for times in itertools.product((0.0, 0.01, 0.05), repeat=len(pat)):
            if list(times) == sorted(times):
                jobs.append((times, True, pat))
                jobs.append((times, False, pat))
    for why, job in zip(core.pmap(ctx, _sendq_job, jobs, chunksize=4), jobs):
        trans += 1
        states.add(("sendq", job))
        if why:
            ctx.violation(f"C20|sendq|{why[0]}", why[1], {"mode": "sendq", "times": list(job[0]), "traffic": job[1],
                                                        "pattern": list(job[2]) if len(job) > 2 else None})
    fjobs = [(T, N, nb, gap) for T in (0.03, 0.05, 0.12) for N in (1, 2) for nb in (1, 3, 6, 12) for gap in (0.0, 0.001, 0.01)]
    for why, job in zip(core.pmap(ctx, _fifo_retry_job, fjobs, chunksize=4), fjobs):
        trans += 1
        states.add(("fifo-retry", job))
        if why:
            ctx.violation(f"C20|sendq|{why[0]}|retransmission", why[1], {"mode": "fifo-retry", "job": list(job)})
    ctx.log(f"(3) send queue: {len(jobs)} enqueue patterns, {len(fjobs)} retransmission-vs-backlog cases")
    # (4)
    g = [0, 1, 2, 10] if ctx.quick else [0, 1, 2, 5, 9, 10]
    vecs = list(itertools.product(g, repeat=4))
    vecs += [tuple(11 if j == i else 0 for j in range(4)) for i in range(4)]
    # lost status-block segments (first, middle, last) once or twice, alone and together with lost requests
    for k in (0, 1, 5, 13, 25, 26):
        for times in (1, 2):
            vecs.append((0, 0, 0, 0, (k, times)))
            vecs.append((1, 0, 2, 1, (k, times)))
    res = {}
    for (why, ok), vec in zip(core.pmap(ctx, _handshake_job, vecs, chunksize=2), vecs):
        trans += 1
        states.add(("handshake", vec, ok))
        res[ok] = res.get(ok, 0) + 1
        if why:
            ctx.violation(f"C20|handshake|{why[0]}", why[1] + (f" [lost segment {vec[4][0]} x{vec[4][1]}]" if len(vec) > 4 else ""),
                          {"mode": "handshake", "vec": [list(x) if isinstance(x, tuple) else x for x in vec]})
    ctx.set("handshake_vectors", len(vecs))
    ctx.set("handshake_outcomes", {str(k): v for k, v in res.items()})
    ctx.log(f"(4) handshake: {len(vecs)} loss vectors: {res}")
    # (5)
    bound = 2 if ctx.quick else 3
    te = 0
    for cfg in (((1, 2), (2, 2)) if ctx.quick else ((1, 2), (2, 2), (2, 4))):
        st = explore.explore(ctx, _threads_job, cfg, bound, label=f"threads{cfg}", max_execs=300000)
        te += st["executions"]
        states.update(("thr", e) for e in st["end"])
        explore.fold_stats(ctx, st, prefix="threads_")
    for cfg in ((1, "after"), (2, "before")):
        st = explore.explore(ctx, _cleanup_threads_job, cfg, bound, label=f"cleanup-threads{cfg}", max_execs=100000)
        te += st["executions"]
        states.update(("thr-clean", e) for e in st["end"])
    trans += te
    ctx.set("thread_schedules", te)
    ctx.set("thread_preemption_bound", bound)
    ctx.log(f"(5) threads: {te} schedules, pre-emption bound {bound}")
    ctx.set("states", len(states))
    ctx.set("transitions", trans)
    ctx.set("traces_validated_against_impl", trans)
    ctx.sample({"retry": {"T": 0.03, "N": 2, "reply": "0.045 s after transmission 2"}, "oracle": "2 transmissions in total, handler removed"})
    ctx.sample({"handshake": {"lost transmissions per step": [10, 0, 2, 1]}, "oracle": "connected, block identical"})
    ctx.assume("engine iterations are stepped deterministically in virtual time (recvfrom timeout advances the clock by 50 ms); "
               "real threads only in (5), CPython GIL with switches at traced line boundaries")


def replay(ctx, data):
    m = data["mode"]
    if m == "dispatch":
        n, bad = _dispatch_job((tuple(data["order"]), tuple(data["raiser"]), tuple(data.get("timed", []))))
        if bad:
            ctx.violation(f"C20|{bad[0]}|raiser={data['raiser'][1]}", bad[1], data)
    elif m == "fifo-retry":
        why = _fifo_retry_job(tuple(data["job"]))
        if why:
            ctx.violation(f"C20|sendq|{why[0]}|retransmission", why[1], data)
    elif m == "retry":
        why = _retry_job(tuple(data["job"]))
        if why:
            ctx.violation(f"C20|retry|{why[0]}", why[1], data)
    elif m == "sendq":
        why = _sendq_job((tuple(data["times"]), data["traffic"]) + ((tuple(data["pattern"]),) if data.get("pattern") else ()))
        if why:
            ctx.violation(f"C20|sendq|{why[0]}", why[1], data)
    elif m == "handshake":
        why, ok = _handshake_job(tuple(tuple(x) if isinstance(x, list) else x for x in data["vec"]))
        if why:
            ctx.violation(f"C20|handshake|{why[0]}", why[1], data)
    elif m == "cleanup-threads":
        res = _cleanup_threads_job(((data["n"], data["where"]), [tuple(p) for p in data["prefix"]]))
        ctx.merge_violations(res["violations"])
    else:
        res = _threads_job(((data["nq"], data["nproc"]), [tuple(p) for p in data["prefix"]]))
        ctx.merge_violations(res["violations"])
    ctx.set("states", 1)
    ctx.set("transitions", 1)
    ctx.set("traces_validated_against_impl", 1)
