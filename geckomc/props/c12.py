"""C12 - device inventory equals the spa's output wiring, with unique keys.

E6: for platform x config x log combinations, output wirings written into the block through the
reference codec: every single assignment (output o = label l), every label pair on the two richest
outputs, the same-device H/L variants on every pair of outputs, all-outputs-same-label, the empty
wiring, and the wirings of the shipped snapshots.  Real GeckoAsyncFacade and blocking GeckoFacade are
built on each; one long-lived blocking facade per combination is re-scanned (public scan_outputs) on every block after the
first, so every inventory is also reached from a non-initial state.  The blocking facade is additionally run in sub-processes under PYTHONHASHSEED 0..15
(it de-duplicates through a set).
Oracle (independent recomputation from the tables): user devices = the table-ordered distinct device
keys that (a) prefix some wired label, (b) have a Ud<device> demand item (case-insensitive) and (c) are
in the device table; class, state item, demand item and mode list match; sensors / binary sensors =
those whose item exists; all keys and unique ids distinct; get_device(k).key == k for every listed key.
"""
from __future__ import annotations

import itertools
import json
import os
import subprocess
import sys

from .. import core, fakes, lib
from ..refmodels.bitfield import Field
from .c11 import build_async, build_sync, snaps_for

LEVEL = "exploration"

from geckolib.const import GeckoConstants as K  # noqa: E402

CLASS_OF = {"PUMP": "GeckoPump", "BLOWER": "GeckoBlower", "LIGHT": "GeckoLight"}
# the harness's OWN copy of the device / sensor catalogue (what a user device is called, its keypad id, its state item and
# class) - the oracle must not read it from the library it judges
REF_DEVICES = {"P1": ("Pump 1", 1, "P1", "PUMP"), "P2": ("Pump 2", 2, "P2", "PUMP"), "P3": ("Pump 3", 3, "P3", "PUMP"),
               "P4": ("Pump 4", 4, "P4", "PUMP"), "P5": ("Pump 5", 5, "P5", "PUMP"), "BL": ("Blower", 6, "BL", "BLOWER"),
               "Waterfall": ("Waterfall", 23, "Waterfall", "PUMP"), "LI": ("Lights", 16, "UdLi", "LIGHT")}
REF_SENSORS = [("Smart Winter Mode:Risk", "SwmRisk")]
REF_BINARY_SENSORS = [("Circulating Pump", "CP"), ("Pump Run", "PumpRun"), ("Ozone", "O3"), ("Smart Winter Mode:Active", "SwmActive"),
                      ("Filter Status:Clean", "Clean"), ("Filter Status:Purge", "Purge")]


def expected(spa, wired_labels):
    st = spa.struct
    acc = spa.accessors
    devs = []
    for dev in st.all_devices:
        if dev in devs:
            continue
        if not any(lab.startswith(dev) for lab in wired_labels):
            continue
        devs.append(dev)
    out = []
    for dev in devs:
        for ud in st.user_demands:
            if f"Ud{dev}".upper() == ud.upper():
                if dev in REF_DEVICES:
                    name, keypad, state_key, cls = REF_DEVICES[dev]
                    out.append({"key": dev, "cls": CLASS_OF[cls], "name": name, "demand": ud, "modes": acc[ud].items,
                                "state": state_key})
    return out


def inventory(fac):
    out = []
    for d in list(fac.pumps) + list(fac.blowers) + list(fac.lights):
        e = {"key": d.key, "cls": type(d).__name__, "name": d.name}
        if hasattr(d, "_user_demand"):
            e["demand"] = d._user_demand["demand"]
            e["modes"] = d._user_demand["options"]
        e["state"] = d._state_sensor.accessor.tag
        out.append(e)
    return out


def judge(spa, fac, wired_labels, which):
    exp = expected(spa, wired_labels)
    got = inventory(fac)
    # device class order in the facade API: pumps, blowers, lights (each in table order)
    exp_sorted = [e for c in ("GeckoPump", "GeckoBlower", "GeckoLight") for e in exp if e["cls"] == c]
    cmp_got = [(g["key"], g["cls"], g["name"], g["state"]) for g in got]
    cmp_exp = [(e["key"], e["cls"], e["name"], e["state"]) for e in exp_sorted]
    if sorted(cmp_got) != sorted(cmp_exp):
        return ("devices", f"{which}: wired labels {sorted(set(wired_labels))}: facade lists {[g['key'] for g in got]}, "
                           f"tables imply {[e['key'] for e in exp_sorted]}")
    if cmp_got != cmp_exp:
        return ("order", f"{which}: devices {[g['key'] for g in got]} not in table order {[e['key'] for e in exp_sorted]}")
    for g, e in zip(got, exp_sorted):
        if g["cls"] == "GeckoPump" and (g.get("demand") != e["demand"] or g.get("modes") != e["modes"]):
            return ("demand", f"{which}: pump {g['key']} demand {g.get('demand')} modes {g.get('modes')}, expected {e['demand']} {e['modes']}")
    acc = spa.accessors
    exp_s = [s[0].upper() for s in REF_SENSORS if s[1] in acc]
    exp_b = [s[0].upper() for s in REF_BINARY_SENSORS if s[1] in acc]
    if [s.key for s in fac.sensors] != exp_s or [s.key for s in fac.binary_sensors] != exp_b:
        return ("sensors", f"{which}: sensors {[s.key for s in fac.sensors]}/{[s.key for s in fac.binary_sensors]}, items imply {exp_s}/{exp_b}")
    devs = [d for d in fac.all_automation_devices if d is not None]
    keys = [d.key for d in devs]
    uids = [d.unique_id for d in devs]
    if len(set(keys)) != len(keys) or len(set(uids)) != len(uids):
        dup = sorted({k for k in keys if keys.count(k) > 1})
        return ("duplicate-key", f"{which}: automation keys/unique ids not distinct: {dup}")
    try:
        listed = fac.devices
    except Exception as e:  # noqa
        return ("devices-raised", f"{which}: facade.devices raised {e!r}")
    for k in listed:
        d = fac.get_device(k)
        if d is None or d.key != k:
            return ("lookup", f"{which}: get_device({k!r}) returned {d!r}")
    # the listing and the look-up speak about the SAME devices as pumps/blowers/lights do
    user = list(fac.pumps) + list(fac.blowers) + list(fac.lights)
    for d in user:
        if d.key not in listed:
            return ("listing", f"{which}: device {d.key} is in the inventory but not in facade.devices {list(listed)[:8]}")
        if fac.get_device(d.key) is not d:
            return ("lookup", f"{which}: get_device({d.key!r}) is not the device the inventory holds")
    stray = [k for k in listed if k in REF_DEVICES and k not in [d.key for d in user]]
    if stray:
        return ("listing", f"{which}: facade.devices lists user devices {stray} that the wiring does not provide")
    return None


def wirings(spa, full=True):
    """[(description, [(output tag, label index)])]"""
    acc = spa.accessors
    outs = [o for o in spa.struct.all_outputs if o in acc]
    out = [("empty", [])]
    for o in outs:
        for i, lab in enumerate(acc[o].items):
            out.append((f"{o}={lab}", [(o, i)]))
    rich = sorted(outs, key=lambda o: -len(acc[o].items))[:2]
    if len(rich) == 2:
        a, b = rich
        def interesting(items):
            idx = [i for i, x in enumerate(items) if x == "NA" or any(x.startswith(d) for d in spa.struct.all_devices)]
            return idx + [i for i, x in enumerate(items) if i not in idx][:2]

        ia, ib = (range(len(acc[a].items)), range(len(acc[b].items))) if full else (interesting(acc[a].items), interesting(acc[b].items))
        for i, j in itertools.product(ia, ib):
            out.append((f"{a}={acc[a].items[i]},{b}={acc[b].items[j]}", [(a, i), (b, j)]))
    for a, b in itertools.combinations(outs, 2):
        la, lb = acc[a].items, acc[b].items
        for dev in ("P1", "P2", "BL"):
            ia = [i for i, x in enumerate(la) if x.startswith(dev)]
            ib = [i for i, x in enumerate(lb) if x.startswith(dev)]
            if ia and ib:
                out.append((f"{a}={la[ia[0]]},{b}={lb[ib[-1]]}", [(a, ia[0]), (b, ib[-1])]))
    # every pair (and the maximal set) of DIFFERENT devices wired at the same time, on whichever outputs offer them
    devs = list(spa.struct.all_devices)
    offer = {}
    for dev in devs:
        for o in outs:
            idx = [i for i, x in enumerate(acc[o].items) if x.startswith(dev)]
            if idx:
                offer.setdefault(dev, []).append((o, idx[0]))
    for d1, d2 in itertools.combinations([d for d in devs if d in offer], 2):
        for (o1, i1), (o2, i2) in itertools.product(offer[d1][:2], offer[d2][:2]):
            if o1 != o2:
                out.append((f"{o1}={acc[o1].items[i1]},{o2}={acc[o2].items[i2]}", [(o1, i1), (o2, i2)]))
                break
    used, w = set(), []
    for dev in devs:
        for o, i in offer.get(dev, []):
            if o not in used:
                used.add(o)
                w.append((o, i))
                break
    if w:
        out.append(("maximal:" + ",".join(f"{o}={acc[o].items[i]}" for o, i in w), w))
        for k in range(len(w)):
            out.append((f"maximal-minus-{w[k][0]}", w[:k] + w[k + 1:]))
    labels = sorted({lab for o in outs for lab in acc[o].items})
    for lab in labels:
        w = [(o, acc[o].items.index(lab)) for o in outs if lab in acc[o].items]
        out.append((f"all={lab}", w))
    return out


def apply_wiring(spa, base, wiring):
    acc = spa.accessors
    outs = [o for o in spa.struct.all_outputs if o in acc]
    blk = base
    for o in outs:
        f = Field.of(acc[o])
        na = acc[o].items.index("NA") if "NA" in acc[o].items else 0
        blk = f.put_raw(blk, na)
    for o, i in wiring:
        blk = Field.of(acc[o]).put_raw(blk, i)
    return blk


def wired_labels_of(spa):
    acc = spa.accessors
    labs = []
    for o in spa.struct.all_outputs:
        f = Field.of(acc[o])
        r = f.raw(spa.struct.status_block)
        lab = acc[o].items[r] if r < len(acc[o].items) else "Unknown"
        if lab != "NA":
            labs.append(lab)
    return labs


def _combo_job(job):
    plat, cfg, log, full = job
    spa = fakes.FakeSpa().load(plat, cfg, log)
    st = spa.struct
    if "TempUnits" not in spa.accessors:
        return job, 0, [], "no-facade"
    bad = []
    n = 0
    ws = wirings(spa, full)
    bases = [bytes(1024)]
    for name, b in snaps_for(plat)[:3]:
        if len(b) == 1024:
            bases.append(b)
    failed, built = {}, set()
    reused = None  # one long-lived blocking facade, re-scanned on every block (a client that re-connects / re-scans)
    for bi, base in enumerate(bases):
        for desc, w in (ws if bi == 0 else [("snapshot-wiring", None)] + ws[:40]):
            blk = base if w is None else apply_wiring(spa, base, w)
            st.set_status_block(blk)
            labs = wired_labels_of(spa)
            if reused is not None:
                n += 1
                try:
                    reused.scan_outputs()
                    why = judge(spa, reused, labs, "sync-rescan")
                except Exception as e:  # noqa
                    why = ("rescan-raised", f"re-scan of a live blocking facade raised {e!r}")
                if why and not any(b[0][0] == why[0] and b[2] == "sync-rescan" for b in bad):
                    bad.append((why, desc + " (re-scan after other wirings)", "sync-rescan"))
            for which, build in (("async", build_async), ("sync", build_sync)):
                n += 1
                try:
                    fac = build(spa)
                except Exception as e:  # noqa
                    # a combination that can never be built is C11's business; one that builds for some wirings and
                    # not for others does not expose the inventory of those wirings
                    failed.setdefault(which, (desc, repr(e)))
                    continue
                built.add(which)
                why = judge(spa, fac, labs, which)
                if why and not any(b[0][0] == why[0] and b[2] == which for b in bad):
                    bad.append((why, desc, which))
                if which == "sync" and reused is None:
                    reused = fac
    for which, (desc, e) in failed.items():
        if which in built:
            bad.append((("construct", f"{which}: the facade cannot be constructed for wiring {desc} ({e}) although it can for other wirings"),
                        desc, which))
    if failed and not built:
        return job, n, bad, "unconstructible"
    return job, n, bad, None


HASHSEED_SCRIPT = r"""
import sys, json
sys.path.insert(0, %r)
from geckomc import core; core.use_repo()
from geckomc import fakes
from geckomc.props import c12
from geckomc.props.c11 import build_sync
out = []
for plat, cfg, log in %r:
    spa = fakes.FakeSpa().load(plat, cfg, log)
    acc = spa.accessors
    outs = [o for o in spa.struct.all_outputs if o in acc]
    # wire as many different devices as there are outputs offering them
    w = []
    want = ["P1", "P2", "P3", "P4", "P5", "BL", "Waterfall", "L1"]
    used = set()
    for o in outs:
        for dev in want:
            if dev in used:
                continue
            idx = [i for i, x in enumerate(acc[o].items) if x.startswith(dev)]
            if idx:
                w.append((o, idx[0])); used.add(dev); break
    spa.struct.set_status_block(c12.apply_wiring(spa, bytes(1024), w))
    fac = build_sync(spa)
    why = c12.judge(spa, fac, c12.wired_labels_of(spa), "sync")
    out.append([plat, cfg, log, [d.key for d in fac.pumps], why])
print(json.dumps(out))
"""


def _ready_job(job):
    """The blocking facade builds its inventory on the thread that completes the connection while the client polls
    `is_connected` on its own thread (GeckoSpaDescriptor.get_facade does exactly that): under the controlled scheduler, with
    a bounded number of pre-emptions at line boundaries of facade.py, a client that saw `is_connected` finds the complete
    inventory - the one the facade ends up with."""
    (plat, cfg, log), prefix = job
    from .. import explore, threads
    from . import c11

    def body(ch):
        spa = fakes.FakeSpa().load(plat, cfg, log)
        ws = wirings(spa, False)
        w = next((x for x in ws if x[0].startswith("maximal:")), ws[-1])
        spa.struct.set_status_block(apply_wiring(spa, bytes(1024), w[1]))
        f_mod = c11.f_mod
        f_mod.threading = type("T", (), {"Thread": c11._NoThread})
        try:
            fac = f_mod.GeckoFacade(spa)
        finally:
            import threading as _th

            f_mod.threading = _th
        sched = threads.Sched(ch, ("geckolib/automation/facade.py",))

        def connector():
            fac._on_connected(spa)
            return "done"

        def client():
            for _ in range(3):
                if fac.is_connected:
                    inv = inventory(fac)
                    return [inv, sorted(d.key for d in fac.all_user_devices), [s.key for s in fac.sensors + fac.binary_sensors]]
            return None

        res = sched.run([connector, client])
        viol = []
        rep = {"mode": "ready", "combo": [plat, cfg, log], "prefix": [list(p) for p in ch.trace]}
        key = f"C12|ready-before-inventory|sync|{plat}"
        final = [inventory(fac), sorted(d.key for d in fac.all_user_devices), [s.key for s in fac.sensors + fac.binary_sensors]]
        errs = [repr(t.error) for t in sched.threads if t.error]
        if sched.deadlock:
            viol.append((key + "|deadlock", "deadlock", rep))
        elif errs:
            viol.append((key, f"{plat} cfg {cfg} log {log}: a client thread that polled is_connected while the connection completed "
                              f"on another thread (schedule {sched.schedule[:40]}...) failed: {errs[:2]}", rep))
        elif res[1] is not None and res[1] != final:
            viol.append((key, f"{plat} cfg {cfg} log {log}: is_connected was True, yet the client found "
                              f"{[e['key'] for e in res[1][0]]} / {len(res[1][2])} sensors where the facade ends up with "
                              f"{[e['key'] for e in final[0]]} / {len(final[2])} sensors", rep))
        return {"violations": viol, "obs": core.digest([res[1] is None, res[1] == final]), "end": core.digest(sched.schedule)}

    return explore.run_with(prefix, body)


def _hashseed_job(seed):
    combos = [("inyt", 60, 60), ("inxm", 9, 9), ("inyj", 62, 59), ("inxe", 61, 60), ("inye-v3", 86, 83)]
    env = dict(os.environ, PYTHONHASHSEED=str(seed), GECKOMC_REPO=core.REPO)
    r = subprocess.run([sys.executable, "-c", HASHSEED_SCRIPT % (core.VERIF, combos)], capture_output=True, text=True, env=env)
    if r.returncode != 0:
        raise core.HarnessError(f"hash-seed subprocess failed: {r.stderr[-400:]}")
    return seed, json.loads(r.stdout.strip().splitlines()[-1])


def run(ctx):
    combos = fakes.all_combinations()
    plats = lib.platforms()
    if ctx.quick:
        keep = set()
        for plat, v in plats.items():
            if v["cfg"] and v["log"]:
                keep.update((plat, c, v["log"][-1]) for c in v["cfg"])
                keep.update((plat, v["cfg"][-1], l) for l in v["log"])
        combos = [c for c in combos if c in keep]
    evals = 0
    notes = {}
    for job, n, bad, note in core.pimap(ctx, _combo_job, [c + (not ctx.quick,) for c in combos], chunksize=1):
        evals += n
        notes[note or "checked"] = notes.get(note or "checked", 0) + 1
        for why, desc, which in bad:
            ctx.violation(f"C12|{why[0]}|{which}|{job[0]}", f"{job[0]} cfg {job[1]} log {job[2]} wiring {desc}: {why[1]}",
                          {"mode": "combo", "combo": list(job[:3])})
    for c in combos[ctx.seed % len(combos):][:1]:
        spa_ = fakes.FakeSpa().load(*c)
        ws_ = wirings(spa_, not ctx.quick)
        ctx.sample({"combination_case": {"combination": list(c), "wirings": len(ws_), "examples": [w[0] for w in ws_[1:400:57]]}})
    ctx.set("combinations", len(combos))
    ctx.set("combination_notes", notes)
    if notes.get("checked", 0) < len(combos) // 2 and not ctx.violations:
        raise core.HarnessError(f"C12: only {notes.get('checked', 0)} of {len(combos)} combinations could be judged - vacuous")
    ctx.log(f"{len(combos)} combinations: {evals} facade constructions judged; {notes}")
    # blocking facade under 16 hash seeds
    orders = {}
    for seed, res in core.pmap(ctx, _hashseed_job, list(range(16)), chunksize=1):
        evals += len(res)
        for plat, cfg, log, pumps, why in res:
            orders.setdefault((plat, cfg, log), set()).add(tuple(pumps))
            if why:
                ctx.violation(f"C12|{why[0]}|sync|hashseed", f"PYTHONHASHSEED={seed} {plat} cfg {cfg} log {log}: {why[1]}",
                              {"mode": "hashseed", "seed": seed})
    ctx.set("hashseed_runs", 16)
    # readiness of the blocking facade across threads
    from .. import explore
    tot = 0
    for combo in [("inyt", 60, 60)] + ([("inxm", 9, 9), ("inyj", 62, 59), ("inxe", 61, 60)] if not ctx.quick else []):
        deep = (not ctx.quick) and combo[0] == "inyt"  # two pre-emptions on one combination (capped), one on the others
        st = explore.explore(ctx, _ready_job, combo, 2 if deep else 1, label=f"ready{combo}", max_execs=6000 if deep else 20000)
        tot += st["executions"]
        explore.fold_stats(ctx, st, prefix="ready_")
        if len(st["end"]) < 2 and not st["stopped_on_violation"]:
            raise core.HarnessError("C12: the readiness exploration produced a single schedule - vacuous")
    ctx.set("ready_thread_schedules", tot)
    evals += tot
    ctx.set("hashseed_distinct_orders", {str(k): len(v) for k, v in orders.items()})
    ctx.set("evaluations", evals)
    ctx.set("distinct_nontrivial", len(combos))
    ctx.set("rule", "cases = (combination, base block, wiring, facade class) constructions compared with an independent recomputation "
            "of the inventory; distinct_nontrivial = combinations")
    ctx.set("exhaustive", not ctx.quick)
    ctx.sample({"combination": ["inyt", 60, 60], "wiring": "Out1=P1H,Out2=P1L", "expect": ["P1 once, class GeckoPump, demand UdP1"]})
    ctx.assume("quick tier: every cfg with the latest log and every log with the latest cfg of each platform; thorough: all 895")


def replay(ctx, data):
    if data.get("mode") == "ready":
        res = _ready_job((tuple(data["combo"]), [tuple(p) for p in data["prefix"]]))
        ctx.merge_violations(res["violations"])
        ctx.set("evaluations", 1)
        ctx.set("distinct_nontrivial", 2)
        ctx.set("rule", "replay")
        return
    if data["mode"] == "hashseed":
        seed, res = _hashseed_job(data["seed"])
        for plat, cfg, log, pumps, why in res:
            if why:
                ctx.violation(f"C12|{why[0]}|sync|hashseed", why[1], data)
    else:
        job, n, bad, note = _combo_job(tuple(data["combo"]) + (True,))
        for why, desc, which in bad:
            ctx.violation(f"C12|{why[0]}|{which}|{job[0]}", why[1], data)
    ctx.set("evaluations", 1)
    ctx.set("distinct_nontrivial", 2)
    ctx.set("rule", "replay")
