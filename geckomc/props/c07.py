"""C07 - dispatch: each datagram consumed once, only by a capable, addressed consumer.

Seam: a really connected GeckoAsyncSpa (unhandled, packet, partial-status, RF-error, watercare-
error consumers live; optionally a ping waiter or a status-block transfer in progress).  The
receive queue is wrapped *from outside* (put_nowait / pop on the instance): every item gets an id,
every pop records the popping task and the harness's own evaluation of that task's handler class
on the datagram.

Alphabet (arrivals from the spa's address): framed ping reply, framed STATP, framed RFERR, framed
WCERR, framed unknown verb, bare unknown bytes, HELLO, framed STATP with wrong source / wrong
destination / both, malformed framing (no DATAS, truncated close tag, empty datagram).
All sequences up to a length, at relative arrival offsets from {0, 1/2 poll, 1 poll}, with waiters
{none, ping, status block}; plus timer-order deviations (consumer wake-up jitter).
"""
from __future__ import annotations

import asyncio
import itertools

from .. import core, explore, lib
from ..peers import SPA_ADDR, SPA_ID, frame
from ..vloop import Chooser
from .c01 import ARig, CLIENT_ID

LEVEL = "model_checking"

from geckolib.driver import (  # noqa: E402
    GeckoAsyncPartialStatusBlockProtocolHandler,
    GeckoPacketProtocolHandler,
    GeckoPingProtocolHandler,
    GeckoRFErrProtocolHandler,
    GeckoStatusBlockProtocolHandler,
    GeckoUnhandledProtocolHandler,
    GeckoWatercareErrorHandler,
)

POLL = 0.1
P = 300  # position patched by STATP datagrams
OTHER = b"SPA99:99:99:99:99:99"
OTHERC = b"IOSsomebody-else"

STATP = b"STATP\x01" + bytes([P >> 8, P & 255]) + b"\xab\xcd"

ALPHABET = [
    ("ping-reply", frame(SPA_ID, CLIENT_ID, b"APING\x00"), "ok"),
    ("statp", frame(SPA_ID, CLIENT_ID, STATP), "ok"),
    ("rferr", frame(SPA_ID, CLIENT_ID, b"RFERR"), "ok"),
    ("wcerr", frame(SPA_ID, CLIENT_ID, b"WCERR"), "ok"),
    ("unknown-verb", frame(SPA_ID, CLIENT_ID, b"ZZTOP\x01\x02"), "ok"),
    ("bare-unknown", b"\x00\x01garbage", "bare"),
    # content / datagrams that are not text at all (bytes >= 0x80 from the first byte on)
    ("unknown-nonascii", frame(SPA_ID, CLIENT_ID, b"\xff\xfe\x80\xc3\x28\x01\x02"), "ok"),
    ("bare-nonascii", b"\xc3\x28\xa0\xa1\xff binary", "bare"),
    ("hello", b"<HELLO>1</HELLO>", "bare"),
    ("statp-wrong-src", frame(OTHER, CLIENT_ID, STATP), "misaddressed"),
    ("statp-wrong-dst", frame(SPA_ID, OTHERC, STATP), "misaddressed"),
    ("statp-wrong-both", frame(OTHER, OTHERC, STATP), "misaddressed"),
    ("no-datas", b"<PACKT><SRCCN>" + SPA_ID + b"</SRCCN><DESCN>" + CLIENT_ID + b"</DESCN></PACKT>", "malformed"),
    ("truncated-close", frame(SPA_ID, CLIENT_ID, STATP)[:-1], "malformed"),
    ("empty", b"", "malformed"),
]
NAMES = [a[0] for a in ALPHABET]
OFFS = [0.0, 0.05, 0.1]
WAITERS = ["none", "ping", "status"]

from geckolib.driver import (  # noqa: E402
    GeckoConfigFileProtocolHandler,
    GeckoGetChannelProtocolHandler,
    GeckoVersionProtocolHandler,
)

HANDSHAKE_HANDLERS = (GeckoVersionProtocolHandler, GeckoGetChannelProtocolHandler, GeckoConfigFileProtocolHandler,
                      GeckoStatusBlockProtocolHandler)

TASK_HANDLER = {
    "SPA:Unhandled packet": GeckoUnhandledProtocolHandler,
    "SPA:Packet handler": GeckoPacketProtocolHandler,
    "SPA:Partial status block handler": GeckoAsyncPartialStatusBlockProtocolHandler,
    "SPA:RFErr handler": GeckoRFErrProtocolHandler,
    "SPA:WCErr handler": GeckoWatercareErrorHandler,
    "HARNESS:waiter:ping": GeckoPingProtocolHandler,
    "HARNESS:waiter:status": GeckoStatusBlockProtocolHandler,
}


def _accepts(cls, data, sender):
    if cls is GeckoAsyncPartialStatusBlockProtocolHandler:
        h = cls(None)
    else:
        h = cls()
    return bool(h.can_handle(data, sender))


class R7(ARig):
    handler_delay = 0.0  # the client's event handler may suspend (a slow application callback)

    async def _on_event(self, event, **kw):
        self.events.append(event)
        if self.handler_delay and self.spa.is_connected:
            await asyncio.sleep(self.handler_delay)

    def __init__(self, chooser=None, window=0.0):
        self.items = []
        self.qlog = []  # ('put'|'pop', t, id, task, ok, head residence)
        self.head_since = None
        self.observed = []
        self.failure = None
        try:
            super().__init__(chooser, window)
        except core.RigFailure as e:
            self.failure = e
            return
        self.loop.timer_choices_enabled = False
        for acc in self.spa.struct.accessors.values():
            acc.watch(self._obs)

    def on_endpoint(self, transport, protocol):
        """Wrap the receive queue of the connection before any traffic (handshake included)."""
        q = protocol.queue
        oput, opop = q.put_nowait, q.pop
        rig = self

        def put(item):
            n = len(rig.items)
            rig.items.append(item)
            t = rig.loop.time()
            if q.qsize() == 0:
                rig.head_since = t
            rig.qlog.append(("put", t, n, None, None, None))
            return oput(item)

        def pop():
            item = q._queue[0]
            n = next(i for i, it in enumerate(rig.items) if it is item)
            t = rig.loop.time()
            task = asyncio.current_task().get_name()
            cls = TASK_HANDLER.get(task)
            if cls is None and task == "HARNESS:connect":
                # the handshake's own waiters: version, channel, config file, status block
                ok = any(_accepts(c, item[0], item[1]) for c in HANDSHAKE_HANDLERS)
            else:
                ok = None if cls is None else _accepts(cls, item[0], item[1])
            rig.qlog.append(("pop", t, n, task, ok, t - rig.head_since))
            r = opop()
            rig.head_since = t
            return r

        q.put_nowait = put
        q.pop = pop

    def _obs(self, sender, old, new):
        self.observed.append((self.loop.time(), sender.tag, old, new))

    def dispatch_violation(self, window=0.0, upto=None):
        """pop-count / capable-popper / head-residence oracle over the queue log."""
        pops = {}
        for e in self.qlog:
            if e[0] == "pop":
                pops.setdefault(e[2], []).append(e)
        for e in self.qlog:
            if e[0] != "put":
                continue
            n = e[2]
            data = self.items[n][0]
            ps = pops.get(n, [])
            if len(ps) > 1:
                return ("pop-count", f"datagram {data[:40]!r} left the queue {len(ps)} times")
            if not ps:
                continue
            _, t, _, task, ok, resid = ps[0]
            if task not in TASK_HANDLER and task != "HARNESS:connect" and not task.startswith("SPA:"):
                return ("popper", f"datagram {data[:40]!r} popped by unexpected task {task}")
            if ok is False:
                return ("incapable", f"datagram {data[:40]!r} popped by {task} whose handler does not accept it")
            if resid > 3 * POLL + window + 1e-6:
                return ("head-residence", f"datagram {data[:40]!r} stayed at the head for {resid:.3f}s (> 3 polling intervals)")
        return None


def _run(ch, seq, offs, waiter, window, hdelay=0.0, start=0.0):
    rig = R7(ch, window)
    rig.handler_delay = hdelay
    if rig.failure is None:
        rig.loop.batch_choices_enabled = window > 0
    if rig.failure is not None:
        # the fault-free handshake did not complete: judge the dispatch seen so far
        why = rig.dispatch_violation()
        if why is None:
            raise core.HarnessError(f"C07: cannot set up a connection and no dispatch violation was observed: {rig.failure}")
        return ("handshake-" + why[0], why[1]), "setup"
    spa = rig.spa
    t0 = rig.loop.time()
    n_setup = len(rig.qlog)
    n_items_setup = len(rig.items)
    blk0 = spa.struct.status_block
    ev0 = len(rig.events)
    if waiter == "ping":
        with rig.loop.running():
            rig.loop.create_task(spa._protocol.get(
                lambda: GeckoPingProtocolHandler.request(parms=spa.sendparms), None, 1), name="HARNESS:waiter:ping")
    elif waiter == "ping-retry":
        # a request whose first attempt is lost: times out after 4 s, pauses 2 s, retries and is answered
        dropped = []

        def drop(data, src):
            if b"APING" in data and not dropped:
                dropped.append(1)
                return True
            return False

        rig.peer.drop_request = drop
        with rig.loop.running():
            rig.loop.create_task(spa._protocol.get(
                lambda: GeckoPingProtocolHandler.request(parms=spa.sendparms), None, 2), name="HARNESS:waiter:ping")
    elif waiter == "status":
        rig.peer.set_block(blk0)  # a refresh must not change anything by itself

        def factory():
            return GeckoStatusBlockProtocolHandler.request(
                spa._protocol.get_and_increment_sequence_counter(False), 0, 200, parms=spa.sendparms)

        with rig.loop.running():
            rig.loop.create_task(spa.struct.get(spa._protocol, factory, retry_count=1), name="HARNESS:waiter:status")
    rig.loop.run_for(0.12)  # the waiter's request is out, its reply traffic is arriving
    rig.loop.timer_choices_enabled = True
    at = max(0.0, start - 0.12)
    sent_at = []
    for k, idx in enumerate(seq):
        if k:
            at += offs[k - 1]
        rig.net.inject(spa._transport, ALPHABET[idx][1], SPA_ADDR, delay=at)
        sent_at.append(at)
    rig.loop.run_for(at + 8.0)
    rig.loop.timer_choices_enabled = False
    # ---- oracle ---------------------------------------------------------------------
    why = None
    puts = {e[2]: e for e in rig.qlog if e[0] == "put"}
    pops = {}
    for e in rig.qlog:
        if e[0] == "pop":
            pops.setdefault(e[2], []).append(e)
    q = spa._protocol.queue
    if q.qsize() != 0:
        why = ("stuck", f"{q.qsize()} datagram(s) still queued 8s after the last arrival: {q._queue[0][0][:40]!r}")
    if why is None:
        why = rig.dispatch_violation(window)
    if why is None:
        for n in puts:
            if len(pops.get(n, [])) != 1:
                why = ("pop-count", f"datagram {rig.items[n][0][:40]!r} left the queue {len(pops.get(n, []))} times")
    # With two or more wake-up deviations the accumulated jitter approaches a whole polling interval, and the unhandled
    # consumer may discard a datagram before its own consumer has looked (the statement allows "discarded as unhandled");
    # the expected effects are then those of the datagrams that WERE taken by their consumers (read off the pop log).
    # With at most one deviation every correctly addressed datagram must reach its consumer.
    ndev = sum(1 for k_, n_, c_ in ch.trace if c_ and k_ in ("timer", "batch"))
    popper = {n: ps[0][3] for n, ps in pops.items() if ps}
    new_items = [n for n in puts if n >= n_items_setup]

    def taken(data, task):
        return sum(1 for n in new_items if rig.items[n][0] == data and popper.get(n) == task)

    n_statp_arrivals = sum(1 for i in seq if ALPHABET[i][0] == "statp")
    if ndev >= 2:
        n_good = taken(ALPHABET[NAMES.index("statp")][1], "SPA:Packet handler")
        n_applied = taken(STATP, "SPA:Partial status block handler")
        n_rf = taken(b"RFERR", "SPA:RFErr handler")
        n_wc = taken(b"WCERR", "SPA:WCErr handler")
    else:
        n_good = n_applied = n_statp_arrivals
        n_rf = sum(1 for i in seq if ALPHABET[i][0] == "rferr")
        n_wc = sum(1 for i in seq if ALPHABET[i][0] == "wcerr")
    if why is None:
        # re-queue rule: inner content enqueued iff ids match the connection pair
        inner = [rig.items[n][0] for n in new_items]
        for idx in seq:
            name, data, cls = ALPHABET[idx]
            if cls == "misaddressed" or name == "no-datas":
                if any(x == STATP for x in inner) and not n_statp_arrivals:
                    why = ("requeue", f"content of mis-addressed/malformed packet {name} was re-queued")
        if sum(1 for x in inner if x == STATP) != n_good:
            why = why or ("requeue", f"{sum(1 for x in inner if x == STATP)} STATP contents queued for {n_good} correctly addressed STATP packets"
                                     f"{' taken by the packet consumer' if ndev >= 2 else ''}")
    if why is None:
        blk = spa.struct.status_block
        exp = blk0 if not n_applied else blk0[:P] + b"\xab\xcd" + blk0[P + 2:]
        if blk != exp:
            why = ("state", "client block changed by traffic that must have no effect"
                   if not n_applied else "client block is not the block with the one addressed update applied")
        evs = [e.name for e in rig.events[ev0:]]
        exp_ev = sorted(["ERROR_RF_ERROR"] * n_rf + ["RUNNING_SPA_WATER_CARE_ERROR"] * n_wc)
        if hdelay:
            # while the callback is suspended its consumer does not poll: a further RFERR/WCERR may be
            # discarded as unhandled (allowed); but never more events than arrivals, never zero for one
            from collections import Counter
            ce, cx = Counter(evs), Counter(exp_ev)
            if any(ce[k] > cx[k] for k in ce) or any(cx[k] and not ce[k] for k in cx):
                why = ("events", f"events {evs} for arrivals {[NAMES[i] for i in seq]} (slow handler)")
        elif sorted(evs) != exp_ev:
            why = ("events", f"events {evs} for arrivals {[NAMES[i] for i in seq]}")
        if not n_applied and rig.observed:
            why = ("observers", f"observers fired {rig.observed[:2]} without an addressed update")
    if why is None and (lib.LOG.records or rig.loop.exceptions):
        why = ("engine", f"errors: {lib.LOG.records[:2]} {rig.loop.exceptions[:2]}")
    if why is None:
        dead = [t.get_name() for t in rig.tasks._tasks if t.done() and t.get_name().startswith("SPA:")
                and t.get_name() not in ("SPA:Ping loop", "SPA:Refresh loop")]
        if dead:
            why = ("consumer-died", f"consumer task(s) ended: {dead}")
    obs = core.digest([(e[0], round(e[1] - t0, 3), e[3]) for e in rig.qlog])
    rig.close()
    return why, obs


def _two_job(job):
    """Two connections in one process (two clients of the spa, each with its own endpoint): a datagram received on one is
    dispatched on that one only.  job = sequence of (target 0/1, alphabet index)."""
    seq = job
    lib.reset_library()
    try:
        a = ARig()
    except core.RigFailure as e:
        # the very first connection does not complete: its own handshake datagrams are not dispatched to their consumers
        return ("handshake", f"a client cannot connect to a healthy spa - the handshake's datagrams do not reach their "
                             f"consumers: {str(e)[:300]}"), "setup"
    # second client on the same loop/net
    from geckolib import GeckoAsyncSpa, GeckoAsyncSpaDescriptor, AsyncTasks
    cid_b = b"IOSgeckomc-0002"
    ev_b = []

    async def on_event_b(event, **kw):
        ev_b.append(event)

    with a.loop.running():
        tasks_b = AsyncTasks()
        spa_b = GeckoAsyncSpa(cid_b, GeckoAsyncSpaDescriptor(SPA_ID, "Spa", SPA_ADDR), tasks_b, on_event_b)
        t = a.loop.create_task(spa_b.connect(), name="HARNESS:connect-b")
    a.peer.set_block(a.block_at_connect)
    a.loop.run_for(90.0, t.done)
    if not t.done() or t.exception() or not spa_b.is_connected:
        a.close()
        return ("two-connect", f"a second client cannot connect while the first is connected: {t!r}"), "setup"
    for task in list(a.tasks._tasks) + list(tasks_b._tasks):
        if task.get_name() in ("SPA:Ping loop", "SPA:Refresh loop") and not task.done():
            task.cancel()
    a.loop.run_for(0.5)
    spas = [(a.spa, CLIENT_ID), (spa_b, cid_b)]
    blk = a.spa.struct.status_block
    a.spa.struct.set_status_block(blk)
    spa_b.struct.set_status_block(blk)
    mark = len(a.net.sent)
    ev0 = (len(a.events), len(ev_b))
    n_statp = [0, 0]
    n_rf = [0, 0]
    for k, (tgt, idx) in enumerate(seq):
        spa, cid = spas[tgt]
        name, data, cls = ALPHABET[idx]
        d = data.replace(CLIENT_ID, cid) if cls == "ok" else data
        a.net.inject(spa._transport, d, SPA_ADDR, delay=0.03 * k)
        if name == "statp":
            n_statp[tgt] += 1
        if name == "rferr":
            n_rf[tgt] += 1
    a.loop.run_for(4.0)
    why = None
    for i, (spa, cid) in enumerate(spas):
        exp = blk if not n_statp[i] else blk[:P] + b"\xab\xcd" + blk[P + 2:]
        if spa.struct.status_block != exp:
            why = ("cross-talk", f"connection {'AB'[i]}: block {'not patched by its own STATP' if n_statp[i] else 'changed although nothing was addressed to it'} "
                                 f"(arrivals {[('AB'[t], NAMES[x]) for t, x in seq]})")
        if spa._protocol.queue.qsize() != 0:
            why = why or ("stuck", f"connection {'AB'[i]}: {spa._protocol.queue.qsize()} datagram(s) still queued 4 s after the arrivals")
        acks = sum(1 for (tm, src, dst, dd) in a.net.sent[mark:] if src == spa._transport.addr and b"STATQ" in dd)
        if acks != n_statp[i]:
            why = why or ("cross-talk", f"connection {'AB'[i]} sent {acks} STATQ for {n_statp[i]} STATP received on it")
    evs = ([e.name for e in a.events[ev0[0]:]], [e.name for e in ev_b[ev0[1]:]])
    for i in (0, 1):
        if evs[i].count("ERROR_RF_ERROR") != n_rf[i]:
            why = why or ("cross-talk", f"connection {'AB'[i]}: {evs[i].count('ERROR_RF_ERROR')} RF-error events for {n_rf[i]} RFERR received on it")
    if why is None and (lib.LOG.records or a.loop.exceptions):
        why = ("engine", f"errors: {lib.LOG.records[:2]} {a.loop.exceptions[:2]}")
    with a.loop.running():
        for x in tasks_b._tasks:
            x.cancel()
    a.close()
    return why, core.digest([seq, why])


def _job(job):
    prefix = job[1]
    seq, offs, waiter, window = job[0][:4]
    hdelay = job[0][4] if len(job[0]) > 4 else 0.0
    start = job[0][5] if len(job[0]) > 5 else 0.0

    def body(ch):
        why, obs = _run(ch, seq, offs, waiter, window, hdelay, start)
        viol = []
        if why:
            dev = [(k, c) for k, n, c in ch.trace if c]
            viol.append((f"C07|{why[0]}|first={NAMES[seq[0]]}|waiter={waiter}",
                         f"arrivals {[NAMES[i] for i in seq]} offsets {list(offs)} waiter={waiter}"
                         f"{f' first arrival {start:.2f}s after the request' if start else ''} deviations {dev}: {why[1]}",
                         {"seq": list(seq), "offs": list(offs), "waiter": waiter, "window": window, "hdelay": hdelay, "start": start,
                          "prefix": [list(p) for p in ch.trace]}))
        return {"violations": viol, "obs": obs, "end": obs}

    return explore.run_with(prefix, body)


def run(ctx):
    n = len(ALPHABET)
    execs = 0
    states = set()
    # two connections in one process
    sub2 = [i for i, al in enumerate(ALPHABET) if al[0] in ("statp", "rferr", "unknown-verb", "ping-reply", "bare-unknown")]
    tjobs = [((t, i),) for t in (0, 1) for i in sub2] + [((t1, i), (t2, j)) for t1 in (0, 1) for t2 in (0, 1) for i in sub2 for j in sub2]
    for (why, o), tj in zip(core.pmap(ctx, _two_job, tjobs, chunksize=4), tjobs):
        execs += 1
        states.add(o)
        if why:
            ctx.violation(f"C07|two-connections|{why[0]}", why[1], {"two": [list(x) for x in tj]})
    ctx.set("two_connection_runs", len(tjobs))
    if ctx.violations:
        # connections are not independent: everything below drives one connection after the other in long-lived workers
        ctx.set("states", len(states))
        ctx.set("transitions", execs)
        ctx.set("traces_validated_against_impl", execs)
        ctx.cap("stopped after the two-connection scenarios: connections interfere with each other")
        return
    plans = []
    for w in WAITERS:
        for a in range(n):
            plans.append(((a,), (), w, 0.0))
        for a, b in itertools.product(range(n), repeat=2):
            for o in OFFS:
                plans.append(((a, b), (o,), w, 0.0))
    # slow application event handler (RF-error / watercare-error callbacks suspend 0.25 s)
    ev_idx = [i for i, a in enumerate(ALPHABET) if a[0] in ("rferr", "wcerr")]
    for e in ev_idx:
        plans.append(((e,), (), "none", 0.0, 0.25))
        for b in range(n):
            for o in OFFS + [0.25]:
                plans.append(((e, b), (o,), "none", 0.0, 0.25))
                plans.append(((b, e), (o,), "none", 0.0, 0.25))
        for b, c in itertools.product(range(n), repeat=2):
            if not ctx.quick or (b + c) % 3 == 0:
                plans.append(((e, b, c), (0.05, 0.1), "none", 0.0, 0.25))
    l3 = list(itertools.product(range(n), repeat=3))
    if ctx.quick:
        for s in l3:
            plans.append((s, (0.0, 0.0), "none", 0.0))
        for s in l3[::7]:
            plans.append((s, (0.05, 0.1), "ping", 0.0))
    else:
        for w in WAITERS:
            for s in l3:
                for o in itertools.product(OFFS, repeat=2):
                    plans.append((s, o, w, 0.0))
    # a request in every phase of the engine (waiting, timing out at 4 s, pausing, retrying at 6 s): arrivals on a
    # 20 ms grid around the time-out and the retry instants
    grid = [round(3.8 + 0.02 * i, 2) for i in range(26)] + [round(5.7 + 0.02 * i, 2) for i in range(36)]
    sub = [i for i, a in enumerate(ALPHABET) if a[0] in ("statp", "rferr", "unknown-verb", "ping-reply", "bare-unknown", "statp-wrong-dst")]
    for g in grid if not ctx.quick else grid[::2]:
        for a in sub:
            plans.append(((a,), (), "ping-retry", 0.0, 0.0, g))
        for a, b in ((1, 4), (4, 1), (0, 1), (2, 1)):
            plans.append(((a, b), (0.05,), "ping-retry", 0.0, 0.0, g))
    jobs = [(p, ()) for p in plans]
    cs = max(1, len(jobs) // (ctx.workers * 16))
    for res in core.pimap(ctx, _job, jobs, chunksize=cs):
        execs += 1
        states.add(res["obs"])
        ctx.merge_violations(res["violations"])
    ctx.set("default_schedule_executions", execs)
    ctx.log(f"default schedule: {execs} arrival sequences, {len(states)} distinct queue traces")

    # consumer wake-up jitter: timer-order deviations on selected sequences
    tb = 1 if ctx.quick else 2
    sel = [((0, 1), (0.0,), "ping"), ((4, 1, 5), (0.0, 0.05), "none"), ((1, 7, 1), (0.05, 0.0), "status"),
           ((2, 3, 4), (0.0, 0.0), "ping"), ((10, 4, 12), (0.0, 0.0), "none"), ((5, 5, 0), (0.1, 0.1), "ping")]
    te = 0
    for s, o, w in sel:
        st = explore.explore(ctx, _job, (s, o, w, 0.049), bound=tb, label=f"timers{s}", max_execs=300000 if ctx.quick else 60000)
        te += st["executions"]
        states.update(st["obs"])
        explore.fold_stats(ctx, st, prefix="timers_")
    if not ctx.quick:
        # every pair (x, statp) and (x, unknown-verb) with one deviation
        for s, o, w in [((a, b), (0.0,), "none") for a in range(n) for b in (1, 4)]:
            st = explore.explore(ctx, _job, (s, o, w, 0.049), bound=1, label=f"timers{s}", max_execs=20000)
            te += st["executions"]
            states.update(st["obs"])
            explore.fold_stats(ctx, st, prefix="timers1_")
    ctx.set("timer_deviation_executions", te)
    ctx.set("timer_deviation_bound", tb)
    ctx.log(f"timer-order deviations <= {tb}: {te} executions")
    execs += te
    ctx.set("states", len(states))
    ctx.set("transitions", execs)
    ctx.set("traces_validated_against_impl", execs)
    ctx.set("alphabet", NAMES)
    ctx.sample({"arrivals": ["unknown-verb", "statp", "bare-unknown"], "offsets": [0.0, 0.05], "waiter": "none",
                "oracle": "each queued item popped exactly once by unhandled or an accepting consumer; head residence <= 3 polls; "
                          "mis-addressed content never re-queued; block/events/observers unchanged"})
    ctx.assume("states = distinct (put/pop, time, task) queue traces")
    ctx.assume("payloads of known verbs are well formed; malformation is at framing level (as the property says)")


def replay(ctx, data):
    if "two" in data:
        why, _ = _two_job(tuple(tuple(x) for x in data["two"]))
        if why:
            ctx.violation(f"C07|two-connections|{why[0]}", why[1], data)
        ctx.set("states", 1)
        ctx.set("transitions", 1)
        ctx.set("traces_validated_against_impl", 1)
        return
    res = _job(((tuple(data["seq"]), tuple(data["offs"]), data["waiter"], data["window"], data.get("hdelay", 0.0),
                 data.get("start", 0.0)),
                [tuple(p) for p in data["prefix"]]))
    ctx.merge_violations(res["violations"])
    ctx.set("states", 1)
    ctx.set("transitions", 1)
    ctx.set("traces_validated_against_impl", 1)
