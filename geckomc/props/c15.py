"""C15 - discovery lists each spa once, honours the filter, and terminates on time.

Seam: the real GeckoAsyncLocator.discover (its hello consumer, broadcast loop, termination loop)
on VLoop/VNet; responders are scripted peers that answer every broadcast hello with a reply built
by a reference encoder (identifier|name in latin-1), with a per-spa latency, multiplicity and loss.
Enumerated: spa sets of size 0..3 (names incl. '|', non-ASCII latin-1, empty), latency per spa from
{0.05, 0.95, 3.95, 4.05, 9.95, 10.05}, reply multiplicity {1,2}, loss of the first 1..2 replies of one spa, filters {none, address, matching
id, non-matching id, address+id}; timer-order deviations (consumer/termination-loop jitter).
"""
from __future__ import annotations

import itertools

from .. import core, explore, lib
from ..vloop import Chooser, VLoop
from ..vnet import VNet

LEVEL = "model_checking"

import geckolib.config as gconfig  # noqa: E402
from geckolib import AsyncTasks, GeckoAsyncLocator  # noqa: E402

POLL = 0.1
SPAS = [
    (b"SPA00:01:02:03:04:05", "My Spa", ("10.0.0.11", 10022)),
    (b"SPA10:11:12:13:14:15", "Spa|Two", ("10.0.0.12", 10022)),
    (b"SPA20:21:22:23:24:25", "Caf\xe9 \xdcber", ("10.0.0.13", 10022)),
    (b"SPA30:31:32:33:34:35", "", ("10.0.0.14", 10022)),
    (b"SPA\xe9\x01\xfe:27", "Latin id", ("10.0.0.15", 10022)),  # identifier bytes >= 0x80 (latin-1 text on the API side)
]
# identifiers are "SPA" + raw MAC octets and names are free text: a line feed / carriage return / NUL inside either
SPAS_ODD = [
    (b"SPA\x00\x0a\x0d\x1f\x20\x7f", "Line\nfeed", ("10.0.0.16", 10022)),
    (b"SPA01:0a", "tab\tand\rreturn", ("10.0.0.17", 10022)),
]
# a neighbourhood full of spas (indices 5..29)
SPAS += [(b"SPA40:41:42:43:44:%02d" % k, "Spa %d%s" % (k, "|x" if k % 7 == 0 else ""), ("10.0.0.%d" % (40 + k), 10022)) for k in range(25)]
NBASE = 5  # the generators below draw from the first five; the neighbourhood is used by the many-spa plans only
ODD0 = len(SPAS)
SPAS += SPAS_ODD
LAT = [0.05, 0.95, 3.95, 4.05, 9.95, 10.05]
FILTERS = ["none", "address", "id", "other-id", "address+id", "subnet", "subnet+id"]


class Responder:
    def __init__(self, spec, latency, mult, lose_first=0):
        self.id, self.name, self.addr = spec
        self.latency = latency
        self.mult = mult
        self.lose_first = lose_first  # the replies to the first k requests this spa hears are lost on the way back
        self.heard = 0
        self.net = None
        self.sent = []  # arrival times of replies at the client

    def on_datagram(self, data, src):
        if data != b"<HELLO>1</HELLO>":
            return
        reply = b"<HELLO>" + self.id + b"|" + self.name.encode("latin1") + b"</HELLO>"
        self.heard += 1
        if self.heard <= self.lose_first:
            return
        for k in range(self.mult):
            self.net.send(self.addr, src, reply, base_delay=self.latency - self.net.latency + 0.001 * k)
            self.sent.append(self.net.loop.time() + self.latency + 0.001 * k)


def _run(ch, spas, filt, window, hdelay=0.0, stall=0.0):
    """spas: tuple of (index, latency, mult)."""
    lib.reset_library()
    loop = VLoop(ch, window=window)
    loop.batch_choices_enabled = window > 0
    loop.stall = stall
    net = VNet(loop)
    rs = []
    for sp in spas:
        idx, lat, mult = sp[:3]
        r = Responder(SPAS[idx], lat, mult, sp[3] if len(sp) > 3 else 0)
        net.add_peer(r.addr, r)
        rs.append(r)
    events = []

    async def handler(event, **kw):
        events.append((loop.time(), event.name, kw.get("spa_descriptor")))
        if hdelay and event.name == "LOCATING_DISCOVERED_SPA":
            import asyncio
            await asyncio.sleep(hdelay)  # a client whose handler does some I/O for every spa found

    target = rs[0] if rs else None
    kw = {}
    if filt in ("address", "address+id"):
        kw["spa_address"] = target.addr[0] if target else "10.0.0.99"
    if filt in ("id", "address+id"):
        kw["spa_identifier"] = (target.id if target else b"SPA99").decode("latin1")
    if filt == "subnet+id":
        # both filters, and more than one spa answers at that address (a directed broadcast): only the requested one counts
        kw["spa_address"] = "10.0.0.255"
        kw["spa_identifier"] = (target.id if target else b"SPA99").decode("latin1")
    if filt == "subnet":
        # the configured address is the directed broadcast address of the spas' sub-net (or a host name / NATed address):
        # replies come from the spas' own addresses, which is what the descriptors must carry
        kw["spa_address"] = "10.0.0.255"
    if filt == "other-id":
        kw["spa_identifier"] = "SPA99:99:99:99:99:99"
    with loop.running():
        tm = AsyncTasks()
        loc = GeckoAsyncLocator(tm, handler, **kw)
        t = loop.create_task(loc.discover(), name="HARNESS:discover")
    t0 = loop.time()
    loop.run_for(30.0, t.done)
    why = None
    cfg = gconfig.GeckoConfig
    T_MAX, T_INIT = cfg.DISCOVERY_TIMEOUT_IN_SECONDS, cfg.DISCOVERY_INITIAL_TIMEOUT_IN_SECONDS
    if not t.done():
        why = ("hung", "discover() did not return within 30 s")
    elif t.exception() is not None:
        why = ("raised", f"discover() raised {t.exception()!r}")
    else:
        t_ret = loop.time() - t0
        # which responders could be heard: with an address filter only that address is asked
        heard = [r for r in rs if filt not in ("address", "address+id") or r.addr[0] == kw["spa_address"]]  # subnet: all
        arrivals = sorted(((a - t0, r) for r in heard for a in r.sent), key=lambda x: (x[0], x[1].id))
        n_dgrams = len(arrivals)

        def passes(r):
            return "spa_identifier" not in kw or kw["spa_identifier"] == r.id.decode("latin1")

        acc = [(a, r) for a, r in arrivals if passes(r)]
        acc_arr = list(acc)
        slack = POLL * (3 + min(n_dgrams, 8)) + window * 2 + stall * (4 + min(n_dgrams, 8)) + hdelay * len(rs)
        if n_dgrams > 8:
            # many replies: the consumer takes ONE datagram per polling interval, so a reply is looked at when everything
            # that arrived before it has been (reference queue model); the fixed slack then only covers polling phase
            done, served = 0.0, []
            for a, r in arrivals:
                done = max(a, done) + POLL + stall
                served.append((done, r))
            acc = [(d_, r) for d_, r in served if passes(r)]
            slack = POLL * 3 + window * 2 + stall * 4 + hdelay * len(rs)
        listed = loc.spas
        ids = [d.identifier for d in listed]
        if len(set(ids)) != len(ids):
            why = ("duplicate", f"spa listed twice: {ids}")
        by_id = {r.id: r for r in rs}
        for d in listed:
            r = by_id.get(d.identifier)
            if r is None or not passes(r) or r not in heard:
                why = ("filter", f"listed {d.identifier!r} which was not requested/asked")
            elif d.name != r.name or (d.ipaddress, d.port) != r.addr:
                why = ("fields", f"descriptor {d.identifier!r}: name {d.name!r} address {(d.ipaddress, d.port)}, "
                                 f"responder has {r.name!r} {r.addr}")
            elif not any(a <= t_ret + 1e-9 for a, rr in arrivals if rr is r):
                why = ("phantom", f"listed {d.identifier!r} whose reply had not arrived")
        must = {r.id for a, r in acc if a <= t_ret - slack}
        # reply loss: a spa that answers every request it hears, and whose reply to the FIRST request only was lost, is
        # listed by any run that lasted the initial wait (the request is repeated every second)
        must |= {r.id for r in heard if r.lose_first == 1 and r.latency <= 1.0 and passes(r) and t_ret >= T_INIT - 0.5}
        missing = must - set(ids)
        if why is None and missing:
            why = ("missing", f"responders {sorted(missing)} answered {slack:.1f}s+ before the return at {t_ret:.2f}s but are not listed")
        # termination time
        if why is None:
            first = acc[0][0] if acc else None
            filtered = "spa_address" in kw or "spa_identifier" in kw
            if first is None or first > T_MAX:
                exp = T_MAX
            elif filtered:
                exp = first
            else:
                exp = max(T_INIT, first)
            exp = min(exp, T_MAX)
            if t_ret > T_MAX + 2 * POLL + window * 2 + 3 * stall + hdelay + 1e-9:
                why = ("late", f"returned after {t_ret:.2f}s, discovery timeout is {T_MAX}s")
            elif t_ret > exp + slack + 1e-9:
                why = ("late", f"returned after {t_ret:.2f}s, expected about {exp:.2f}s (+{slack:.1f})")
            else:
                # "early" is judged against the arrival itself (the queue model above is an upper bound)
                fa = acc_arr[0][0] if acc_arr else None
                exp_e = T_MAX if (fa is None or fa > T_MAX) else (fa if filtered else max(T_INIT, fa))
                exp_e = min(exp_e, T_MAX)
                if t_ret < exp_e - 1e-9:
                    why = ("early", f"returned after {t_ret:.2f}s, before {exp_e:.2f}s")
        if why is None:
            for tr in net.transports:
                if not tr.closed:
                    why = ("endpoint", "discovery endpoint not closed on return")
            loop.run_for(0.001 if not hdelay else 2.0)
            live = [x.get_name() for x in tm._tasks if not x.done() and x.get_name().startswith("LOC:")]
            if why is None and live:
                why = ("tasks", f"helper tasks alive after return: {live}")
        # discovered events: one per listed spa
        if why is None:
            evd = [e for e in events if e[1] == "LOCATING_DISCOVERED_SPA"]
            if len(evd) != len(listed):
                why = ("events", f"{len(evd)} discovered events for {len(listed)} listed spas")
    if why is None and (loop.exceptions or lib.LOG.records):
        why = ("engine", f"{loop.exceptions[:2]} {lib.LOG.records[:2]}")
    died = [x.get_name() for x in tm._tasks if x.done() and not x.cancelled() and x.exception() is not None]
    if why is None and died:
        why = ("helper-died", f"helper task raised: {died}")
    obs = core.digest([spas, filt, round(loop.time() - t0, 2), sorted(d.identifier for d in (loc.spas or []))])
    with loop.running():
        for x in tm._tasks:
            x.cancel()
    loop.shutdown()
    return why, obs


def _job(job):
    (spas, filt, window), prefix = job[0][:3], job[1]
    hdelay = job[0][3] if len(job[0]) > 3 else 0.0
    stall = job[0][4] if len(job[0]) > 4 else 0.0

    def body(ch):
        why, obs = _run(ch, spas, filt, window, hdelay, stall)
        viol = []
        if why:
            names = [SPAS[sp[0]][1] for sp in spas]
            cls = "pipe-in-name" if any("|" in n for n in names) else "plain"
            viol.append((f"C15|{why[0]}|{cls}|filter={filt}",
                         f"spas {[(SPAS[sp[0]][0].decode('latin1'), SPAS[sp[0]][1]) + tuple(sp[1:]) for sp in spas]} (latency, multiplicity[, first replies lost]) filter={filt}{f' client handler awaits {hdelay}s' if hdelay else ''}{f' every wake-up {stall}s late' if stall else ''}: {why[1]}",
                         {"spas": [list(s) for s in spas], "filter": filt, "window": window, "hdelay": hdelay, "stall": stall,
                          "prefix": [list(p) for p in ch.trace]}))
        return {"violations": viol, "obs": obs, "end": obs}

    return explore.run_with(prefix, body)


def run(ctx):
    plans = []
    lats3 = [0.05, 3.95, 4.05, 10.05] if ctx.quick else LAT
    lats2 = LAT
    for f in FILTERS:
        plans.append(((), f, 0.0))
        for i in range(NBASE):
            for lat in LAT:
                for m in (1, 2):
                    plans.append((((i, lat, m),), f, 0.0))
        for i, j in itertools.permutations(range(NBASE), 2):
            for la, lb in itertools.product(lats2, repeat=2):
                plans.append((((i, la, 1), (j, lb, 1)), f, 0.0))
                if la == lb:
                    plans.append((((i, la, 2), (j, lb, 1)), f, 0.0))
        for tr in itertools.combinations(range(4), 3):
            for ls in itertools.product(lats3, repeat=3):
                plans.append((tuple((i, l, 1) for i, l in zip(tr, ls)), f, 0.0))
    # a client handler that awaits for every discovered spa; a loaded host (every timer wake-up late)
    for f in FILTERS:
        for hd in (0.3, 1.0):
            plans.append((((0, 0.05, 1),), f, 0.0, hd))
            for lb in (0.05, 0.95, 3.4, 3.95, 9.5):
                plans.append((((0, 0.05, 1), (2, lb, 1)), f, 0.0, hd))
        for st in (0.05, 0.09):
            plans.append(((), f, 0.0, 0.0, st))
            for la in (0.05, 3.95, 9.5):
                plans.append((((0, la, 1),), f, 0.0, 0.0, st))
                plans.append((((3, la, 1), (1, 0.05, 2)), f, 0.0, 0.0, st))
    # many spas answering every request in the same tick (more replies pending at once than any small backlog bound)
    for f in ("none", "id", "other-id"):
        for count in (12, 17, 20, 25):
            for m in (1, 2):
                # with an id filter the requested spa is the LAST to answer in every round
                plans.append((tuple([(5 + count - 1, 0.06, m)] + [(5 + k, 0.05, m) for k in range(count - 1)]), f, 0.0))
    # odd bytes inside identifiers / names, alone and answering before an ordinary spa
    for f in FILTERS:
        for k in range(len(SPAS_ODD)):
            plans.append((((ODD0 + k, 0.05, 1),), f, 0.0))
            plans.append((((ODD0 + k, 0.05, 1), (0, 0.95, 1)), f, 0.0))
            plans.append((((0, 0.05, 1), (ODD0 + k, 0.95, 2)), f, 0.0))
    # heavy reply multiplicity: more datagrams per second than the consumer drains
    for f in FILTERS:
        for m in (8, 12):
            plans.append((((0, 0.05, m),), f, 0.0))
            plans.append((((0, 0.05, m), (2, 0.05, m)), f, 0.0))
            plans.append((((1, 0.95, m), (3, 0.05, 1)), f, 0.0))
    # reply loss: the reply to the first request (or the first two) of one spa is lost, alone and next to a spa that is heard at once
    for f in FILTERS:
        for i in range(NBASE):
            for k in (1, 2):
                for lat in (0.05, 0.95):
                    plans.append((((i, lat, 1, k),), f, 0.0))
        for i, j in itertools.permutations(range(4), 2):
            for k in (1, 2):
                plans.append((((i, 0.05, 1, 0), (j, 0.05, 1, k)), f, 0.0))
                plans.append((((i, 0.05, 1, k), (j, 0.95, 2, 0)), f, 0.0))
    execs = 0
    states = set()
    jobs = [(p, ()) for p in plans]
    cs = max(1, len(jobs) // (ctx.workers * 16))
    for res in core.pimap(ctx, _job, jobs, chunksize=cs):
        execs += 1
        states.add(res["obs"])
        ctx.merge_violations(res["violations"])
    ctx.set("default_schedule_executions", execs)
    ctx.log(f"{execs} discovery scenarios on the default schedule")
    tb = 2
    sel = [(((0, 0.05, 2), (2, 0.05, 1)), "none"), (((0, 3.95, 1), (3, 4.05, 1)), "none"), (((2, 0.95, 2),), "id"),
           (((0, 9.95, 1),), "none"), (((0, 0.05, 1), (2, 0.05, 1), (3, 0.05, 1)), "address")]
    te = 0
    for spas, f in sel:
        st = explore.explore(ctx, _job, (spas, f, 0.049), bound=tb, label=f"timers {spas} {f}", max_execs=100000)
        te += st["executions"]
        states.update(st["obs"])
        explore.fold_stats(ctx, st, prefix="timers_")
    execs += te
    ctx.set("timer_deviation_executions", te)
    ctx.set("timer_deviation_bound", tb)
    ctx.set("states", len(states))
    ctx.set("transitions", execs)
    ctx.set("traces_validated_against_impl", execs)
    ctx.sample({"spas": [["SPA00:01:02:03:04:05", "My Spa", 3.95, 1], ["SPA30:31:32:33:34:35", "", 4.05, 1]], "filter": "none",
                "oracle": "each answering spa listed once, fields intact, return at max(4, first reply)+slack <= 10.2 s, endpoint closed, no LOC task"})
    ctx.assume("replies are built by a reference encoder (identifier|name, latin-1); responders answer every broadcast they hear")
    ctx.assume("reply loss is modelled as 'the replies to the first k requests a spa hears are lost'; a spa that lost only its first "
               "reply must be listed by a run that lasts the initial wait, i.e. the request is repeated within the initial wait")


def replay(ctx, data):
    res = _job(((tuple(tuple(s) for s in data["spas"]), data["filter"], data["window"], data.get("hdelay", 0.0), data.get("stall", 0.0)),
                [tuple(p) for p in data["prefix"]]))
    ctx.merge_violations(res["violations"])
    ctx.set("states", 1)
    ctx.set("transitions", 1)
    ctx.set("traces_validated_against_impl", 1)
