"""C11 - every shipped pack table yields a facade whose read-only API is total.

E6, configurations exhaustive: all 895 platform x config x log combinations x blocks {zeros, ones, every
shipped snapshot of that platform, its complement, seed-chosen random blocks}; plus one-field-exhaustive
sweeps: every byte the facade API was observed to read (recorded by instrumenting the accessors' read
path from outside) takes ALL 256 contents while the rest stays at a base block (bytes that decide the
device wiring at construction time: every label index + out-of-range boundary values), and pairwise
sweeps for the coupled items (TempUnits x temperatures, Heating x CoolingDown).
Members: the real GeckoAsyncFacade and blocking GeckoFacade are constructed and every public property,
__str__, __repr__, monitor of the facade and of each device, `devices` and get_device() is evaluated.
Watercare: every mode byte 0..255 and None; reminders: every type x day boundary, empty and 10-entry lists.
Oracle: no exception; out-of-range enumeration values read as 'Unknown'.
"""
from __future__ import annotations

import os
import random

from .. import core, fakes, lib

LEVEL = "exploration"

from geckolib.automation import async_facade as af_mod  # noqa: E402
from geckolib.automation import facade as f_mod  # noqa: E402
from geckolib.automation.reminders import GeckoReminders  # noqa: E402
from geckolib.automation.watercare import GeckoWaterCare  # noqa: E402
from geckolib.driver import GeckoReminderType  # noqa: E402
from geckolib.driver import accessor as amod  # noqa: E402


class _NoThread:
    def __init__(self, *a, **k):
        pass

    def start(self):
        pass

    def join(self, *a):
        pass


def build_async(spa):
    return af_mod.GeckoAsyncFacade(spa, fakes.FakeTaskman())


def build_sync(spa):
    orig = f_mod.threading.Thread
    f_mod.threading = type("T", (), {"Thread": _NoThread})
    try:
        fac = f_mod.GeckoFacade(spa)
    finally:
        import threading

        f_mod.threading = threading
    fac._on_connected(spa)
    return fac


def members(obj):
    out = []
    for name in dir(type(obj)):
        if name.startswith("_"):
            continue
        attr = getattr(type(obj), name, None)
        if isinstance(attr, property):
            out.append(name)
    return out


def touch(obj, label, fails):
    for name in members(obj):
        try:
            v = getattr(obj, name)
            if name in ("devices",):
                for k in v:
                    d = obj.get_device(k)
                    if d is None or d.key != k:
                        fails.append((f"{label}.get_device", f"get_device({k!r}) -> {d!r}"))
        except Exception as e:  # noqa
            fails.append((f"{label}.{name}", repr(e)))
    for fn in (str, repr):
        try:
            fn(obj)
        except Exception as e:  # noqa
            fails.append((f"{label}.{fn.__name__}", repr(e)))


def touch_facade(fac, fails, which):
    touch(fac, f"{which}facade", fails)
    devs = []
    for attr in ("pumps", "blowers", "lights", "sensors", "binary_sensors"):
        try:
            devs += list(getattr(fac, attr))
        except Exception as e:  # noqa
            fails.append((f"{which}facade.{attr}", repr(e)))
    for attr in ("water_heater", "water_care", "keypad", "eco_mode", "error_sensor", "reminders_manager"):
        if hasattr(type(fac), attr):
            try:
                d = getattr(fac, attr)
                if d is not None:
                    devs.append(d)
            except Exception as e:  # noqa
                fails.append((f"{which}facade.{attr}", repr(e)))
    for d in devs:
        touch(d, f"{which}{type(d).__name__}", fails)
        ss = getattr(d, "_state_sensor", None)
        if ss is not None:
            touch(ss, f"{which}{type(d).__name__}.state_sensor", fails)


def check_unknown(spa, fails):
    blk = spa.struct.status_block
    for tag, a in spa.accessors.items():
        if a.type == "Enum":
            try:
                raw = a.raw_value
                v = a.value
            except Exception as e:  # noqa
                fails.append((f"accessor:{tag}", repr(e)))
                continue
            if raw >= len(a.items) and v != "Unknown":
                fails.append((f"accessor:{tag}", f"raw {raw} beyond {len(a.items)} labels reads {v!r}, not 'Unknown'"))


def evaluate(spa, which=("async", "sync")):
    """Construct the facades on the spa's current block and touch everything. -> list of failures."""
    fails = []
    for w in which:
        try:
            fac = build_async(spa) if w == "async" else build_sync(spa)
        except Exception as e:  # noqa
            fails.append((f"{w}:construct", repr(e)))
            continue
        touch_facade(fac, fails, f"{w}:")
    return fails


_SNAP_BY_PLAT = None


def snaps_for(plat):
    global _SNAP_BY_PLAT
    if _SNAP_BY_PLAT is None:
        _SNAP_BY_PLAT = {}
        for f in lib.snapshot_files():
            for i, s in enumerate(lib.load_snapshots(f)):
                if s.packtype:
                    _SNAP_BY_PLAT.setdefault(s.packtype.lower(), []).append((f"{os.path.basename(f)}#{i}", s.bytes))
    return _SNAP_BY_PLAT.get(plat, [])


def base_blocks(plat, seed):
    out = [("zeros", bytes(1024)), ("ones", b"\xff" * 1024)]
    for name, b in snaps_for(plat):
        if len(b) == 1024:
            out.append((name, b))
            out.append((name + "~", bytes(255 - x for x in b)))
    rnd = random.Random(seed * 1009 + len(plat))
    for i in range(4):
        out.append((f"random{i}", bytes(rnd.randrange(256) for _ in range(1024))))
    return out


class ReadRecorder:
    """Records which accessors are read (wrapping _get_raw_value from outside)."""

    def __init__(self):
        self.read = set()
        self.orig = amod.GeckoStructAccessor._get_raw_value
        rec = self

        def wrapped(acc, status_block=None):
            rec.read.add(acc.tag)
            return rec.orig(acc, status_block)

        self.wrapped = wrapped

    def __enter__(self):
        amod.GeckoStructAccessor._get_raw_value = self.wrapped
        return self

    def __exit__(self, *a):
        amod.GeckoStructAccessor._get_raw_value = self.orig


def _combo_job(job):
    plat, cfg, log, seed, sweep, full = job
    spa = fakes.FakeSpa().load(plat, cfg, log)
    st = spa.struct
    n = 0
    fails_all = {}

    def note(fails, where):
        for m, e in fails:
            fails_all.setdefault((m, e.split("(")[0]), (where, e))

    blocks = base_blocks(plat, seed)
    if not sweep and not full:
        blocks = blocks[:2] + [b for b in blocks[2:] if not b[0].startswith("random")][:6] + [b for b in blocks if b[0] == "random0"]
    for name, blk in blocks:
        st.set_status_block(blk)
        n += 1
        note(evaluate(spa), name)
        f2 = []
        check_unknown(spa, f2)
        note(f2, name)
    if any(k[0].endswith(":construct") for k in fails_all) or not sweep:
        return (plat, cfg, log), n, fails_all
    # which bytes does the API read?  (construction vs. evaluation)
    base_name, base = next(((nm, b) for nm, b in blocks if nm not in ("zeros", "ones") and not nm.startswith("random")), blocks[0])
    st.set_status_block(base)
    with ReadRecorder() as rc:
        fac_a = build_async(spa)
        fac_s = build_sync(spa)
        ctor_tags = set(rc.read)
        rc.read.clear()
        ff = []
        touch_facade(fac_a, ff, "async:")
        touch_facade(fac_s, ff, "sync:")
        eval_tags = set(rc.read)
    acc = spa.accessors
    ctor_bytes = sorted({acc[t].pos + i for t in ctor_tags for i in range(acc[t].length) if acc[t].pos + i < 1024})
    eval_bytes = sorted({acc[t].pos + i for t in eval_tags for i in range(acc[t].length) if acc[t].pos + i < 1024} - set(ctor_bytes))
    # state bytes: all 256 contents, facades reused (their device lists do not depend on these bytes)
    for pos in (eval_bytes if sweep in (True, 'eval') else ()):
        for v in range(256):
            st.set_status_block(base[:pos] + bytes([v]) + base[pos + 1:])
            n += 1
            ff = []
            touch_facade(fac_a, ff, "async:")
            if v % (4 if full else 16) == 0:
                touch_facade(fac_s, ff, "sync:")
            if ff:
                note(ff, f"{base_name} byte {pos}={v}")
    # wiring bytes: every label index and the out-of-range boundary values, facades rebuilt
    for pos in (ctor_bytes if sweep in (True, 'ctor', 'eval') else ()):
        # (every shipped label list has fewer than 64 entries: 0..71 covers every label index and the first out-of-range
        #  values; the rest of the byte range is sampled at its boundaries)
        vals = sorted(set(list(range(0, 72 if full else 34)) + [63, 64, 127, 128, 200, 254, 255]))
        if sweep == 'eval':
            # log-version combinations: the devices a wiring label brings into being are built from the LOG table, so
            # every label index of the items on this byte is tried here too (out-of-range values are the cfg sweeps' job)
            nlab = max([len(acc[t].items) for t in ctor_tags if acc[t].pos <= pos < acc[t].pos + acc[t].length and acc[t].items] or [2])
            vals = list(range(0, min(nlab, 64)))
        for v in vals:
            st.set_status_block(base[:pos] + bytes([v]) + base[pos + 1:])
            n += 1
            note(evaluate(spa), f"{base_name} wiring byte {pos}={v}")
    # coupled items
    tu = acc.get("TempUnits")
    temps = [acc[k] for k in ("SetpointG", "RealSetPointG", "DisplayedTempG") if k in acc]
    if tu is not None:
        for u in range(4):
            for t in temps:
                for raw in (0, 1, 319, 320, 321, 540, 65535):
                    b = base[:tu.pos] + bytes([u]) + base[tu.pos + 1:]
                    b = b[:t.pos] + raw.to_bytes(2, "big") + b[t.pos + 2:]
                    st.set_status_block(b)
                    n += 1
                    note(evaluate(spa, ("async",)), f"units={u} {t.tag}={raw}")
    return (plat, cfg, log), n, fails_all


def _aux_checks():
    """Watercare mode bytes and reminder lists on the automation objects."""
    fails = []
    spa = fakes.FakeSpa().load("inyt", 50, 50)
    fac = fakes.FakeFacade(spa)
    wc = GeckoWaterCare(fac)
    n = 0
    for mode in [None] + list(range(256)) + [-1, 256]:
        n += 1
        wc.active_mode = None
        try:
            wc.change_watercare_mode(mode)
            for fn in (str, repr):
                fn(wc)
            wc.mode, wc.modes, wc.monitor
        except Exception as e:  # noqa
            fails.append((f"watercare mode {mode}", repr(e)))
    rm = GeckoReminders(fac)
    days = [-32768, -1, 0, 1, 32767]
    lists = [[]]
    for t in GeckoReminderType:
        for d in days:
            lists.append([(t, d)])
    lists.append([(GeckoReminderType((k % 6) + 1), days[k % 5]) for k in range(10)])
    lists.append([(GeckoReminderType.INVALID, 0)] * 10)
    for lst in lists:
        n += 1
        try:
            rm.change_reminders(lst)
            str(rm), repr(rm)
            for r in rm.reminders:
                str(r), r.description, r.days, r.type, r.monitor
            for t in GeckoReminderType:
                rm.get_reminder(t)
            rm.last_update
        except Exception as e:  # noqa
            fails.append((f"reminders {lst!r}"[:80], repr(e)))
    return n, fails


def run(ctx):
    combos = fakes.all_combinations()
    plats = lib.platforms()
    sweep_set = {}
    for plat, v in plats.items():
        if v["cfg"] and v["log"]:
            # quick tier: state-byte sweeps on every log version (latest cfg), wiring-byte sweeps on every cfg version
            # (latest log)
            for c in v["cfg"]:
                sweep_set[(plat, c, v["log"][-1])] = "ctor"
            for l in v["log"]:
                sweep_set[(plat, v["cfg"][-1], l)] = "eval" if (plat, v["cfg"][-1], l) not in sweep_set else True
    # thorough: both sweeps with all 256 contents on those combinations (every cfg and every log version of every platform
    # appears in one), the full block set on all 895
    jobs = [(p, c, l, ctx.seed, (True if (p, c, l) in sweep_set else False) if not ctx.quick else sweep_set.get((p, c, l), False),
             not ctx.quick) for p, c, l in combos]
    evals = 0
    built = 0
    for (combo, n, fails) in core.pimap(ctx, _combo_job, jobs, chunksize=2):
        evals += n
        if not any(k[0].endswith(":construct") for k in fails):
            built += 1
        for (member, ecls), (where, e) in fails.items():
            plat, cfg, log = combo
            if member.endswith(":construct"):
                key = f"C11|construct|{plat}|cfg={cfg}|log={log}|{member.split(':')[0]}"
            else:
                key = f"C11|member|{member}|{plat}"
            ctx.violation(key, f"{plat} cfg {cfg} log {log}, block {where}: {member} -> {e}",
                          {"mode": "combo", "combo": list(combo), "seed": ctx.seed})
    for j in jobs[ctx.seed % len(jobs):][:2]:
        ctx.sample({"combination_case": {"platform": j[0], "cfg": j[1], "log": j[2], "field_sweep": j[4],
                                         "blocks": [b[0] for b in base_blocks(j[0], ctx.seed)][:8]}})
    n, fails = _aux_checks()
    evals += n
    for where, e in fails:
        ctx.violation(f"C11|aux|{where.split()[0]}|{e.split('(')[0]}", f"{where}: {e}", {"mode": "aux"})
    ctx.set("combinations", len(combos))
    ctx.set("combinations_with_field_sweeps", sum(1 for j in jobs if j[4]))
    ctx.set("combinations_fully_constructible", built)
    ctx.set("evaluations", evals)
    ctx.set("distinct_nontrivial", len(combos))
    ctx.set("rule", "cases = (combination, block) facade constructions with every public read-only member evaluated, + per-byte sweeps "
            "(all 256 contents of every byte the API reads) + coupled-item sweeps + watercare/reminder inputs; distinct_nontrivial = "
            "platform x cfg x log combinations")
    ctx.set("exhaustive", False)
    ctx.sample({"combination": ["inyt", 60, 60], "blocks": "zeros, ones, 19 snapshots + complements, 4 random",
                "sweep": "every byte read by the API x 256 contents"})
    ctx.assume("facades are built on a stand-in spa exposing the real structure/accessors of the table pair (no network); quick tier "
               "sweeps fields on every cfg with the latest log and every log with the latest cfg of each platform")


def replay(ctx, data):
    if data["mode"] == "aux":
        n, fails = _aux_checks()
        for where, e in fails:
            ctx.violation(f"C11|aux|{where.split()[0]}|{e.split('(')[0]}", f"{where}: {e}", data)
    else:
        p, c, l = data["combo"]
        combo, n, fails = _combo_job((p, c, l, data.get("seed", 0), True, False))
        for (member, ecls), (where, e) in fails.items():
            if member.endswith(":construct"):
                key = f"C11|construct|{p}|cfg={c}|log={l}|{member.split(':')[0]}"
            else:
                key = f"C11|member|{member}|{p}"
            ctx.violation(key, f"{where}: {member} -> {e}", data)
    ctx.set("evaluations", 1)
    ctx.set("distinct_nontrivial", 2)
    ctx.set("rule", "replay")
