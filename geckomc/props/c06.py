"""C06 - request engine: bounded retries, one request in flight, every caller completes; gates.

Part A (engine).  Seam: the real GeckoAsyncUdpProtocol.get / wait_for_response / lock of a really
connected GeckoAsyncSpa with its real consumer tasks; the peer is the real simulator.  1..3
concurrent callers (distinct verbs so datagrams can be attributed) enter get() at offsets from a
grid; every reply gets a fate from {deliver, drop, late-beyond-timeout}; additionally the order of
(nearly) simultaneous timers is explored (polling phase jitter).  Oracle is datagram level plus a
monitor on wait_for_response intervals (installed from the harness).

Part B (gates).  The whole manager stack is connected, the spa goes dark, and each gated API is
invoked at every polling tick of a window around the moment the spa stops 'responding to pings',
alone and queued behind a request that is timing out.  No SPACK/GETWC/SETWC/REQRM datagram may be
*first transmitted* while the harness's own recomputation of
"connected and last ping reply < 2 x ping period ago" is false.
"""
from __future__ import annotations

import itertools
import os

from .. import core, explore, lib
from ..peers import SPA_ADDR, SPA_ID, unframe
from ..vloop import Chooser
from .c01 import ARig, CLIENT_ID

LEVEL = "model_checking"

import geckolib.config as gconfig  # noqa: E402
from geckolib.driver import (  # noqa: E402
    GeckoPackCommandProtocolHandler,
    GeckoPingProtocolHandler,
    GeckoUdpProtocolHandler,
)

TIMEOUT = 4.0
PAUSE = 2.0
POLL = 0.1
FATES = ["deliver", "drop", "delay:4.3"]
REQ = {"status": b"STATU", "version": b"AVERS", "channel": b"CURCH", "watercare": b"GETWC", "ping": b"APING", "press": b"SPACK",
       "reminders": b"REQRM"}
REP = {"status": b"STATV", "version": b"SVERS", "channel": b"CHCUR", "watercare": b"WCGET", "ping": b"APING", "press": b"PACKS",
       "reminders": b"RMREQ"}
OFFSETS = [0.0, 0.05, 0.1, 3.95, 6.05]


class E6(ARig):
    def __init__(self, chooser=None, window=0.0):
        super().__init__(chooser, window)
        self.waits = []  # (task, verb, t0, t1, result)
        self.pops = []
        rig = self
        self._orig_wait = GeckoUdpProtocolHandler.wait_for_response

        async def monitored(handler, protocol):
            import asyncio

            t0 = rig.loop.time()
            name = asyncio.current_task().get_name()
            res = None
            try:
                res = await rig._orig_wait(handler, protocol)
                return res
            finally:
                rig.waits.append((name, type(handler).__name__, t0, rig.loop.time(), res))

        GeckoUdpProtocolHandler.wait_for_response = monitored

    def close(self):
        GeckoUdpProtocolHandler.wait_for_response = self._orig_wait
        super().close()

    def factory(self, who):
        spa = self.spa
        proto = spa._protocol
        if who == "version":
            return spa._get_version_handler_func
        if who == "channel":
            return spa._get_channel_handler_func
        if who == "watercare":
            return spa._get_watercare_handler_func
        if who == "reminders":
            return spa._get_reminders_handler_func
        if who == "ping":
            return lambda: GeckoPingProtocolHandler.request(parms=spa.sendparms)
        if who == "status":
            # the status-block request engine (GeckoAsyncStructure.get): a 2-segment range
            from geckolib.driver import GeckoStatusBlockProtocolHandler
            return lambda: GeckoStatusBlockProtocolHandler.request(
                proto.get_and_increment_sequence_counter(False), 100, 60, parms=spa.sendparms)
        if who == "press":
            return lambda: GeckoPackCommandProtocolHandler.keypress(
                proto.get_and_increment_sequence_counter(True), spa.pack_type, 1, parms=spa.sendparms)
        raise KeyError(who)


def _engine_run(ch, callers, offsets, R, window, faulty_verbs, fixed=None, noise=None, batch=False, cancel=None, stall=0.0, close_at=None):
    rig = E6(ch, window)
    rig.loop.batch_choices_enabled = batch
    rig.loop.stall = stall  # a loaded host: every timer wake-up late by this much
    t_base = rig.loop.time()
    results = {}
    enter = {}
    done_at = {}

    async def caller(who, off):
        import asyncio

        await asyncio.sleep(off)
        enter[who] = rig.loop.time()
        if who == "status":
            r = await rig.spa.struct.get(rig.spa._protocol, rig.factory(who), retry_count=R)
            r = True if r else None
        else:
            r = await rig.spa._protocol.get(rig.factory(who), None, R if who != "ping" else 1)
        results[who] = r
        done_at[who] = rig.loop.time()

    def fates(src, dst, data):
        if src != SPA_ADDR:
            return None
        p = unframe(data)
        if p is None:
            return None
        for who in callers:
            if who in faulty_verbs and p[2].startswith(REP[who]) and not (who == "ping" and len(p[2]) == 5):
                return [fixed] if fixed else FATES
        return None

    rig.net.fates = fates
    mark = len(rig.net.sent)
    # what becomes visible to the waiters, and when: every item put on the connection's receive queue (wrapped datagrams
    # and the contents the packet consumer puts back), with the queue length it found
    puts = []
    q_ = rig.spa._protocol.queue
    put0 = q_.put_nowait

    def put_logged(item):
        puts.append((rig.loop.time(), bytes(item[0]), q_.qsize()))
        return put0(item)

    q_.put_nowait = put_logged
    if os.environ.get("GECKOMC_DBG"):
        rig._dbg_puts = puts
    if noise is not None:
        # unrelated, unsolicited traffic from the spa landing near a timeout instant
        from ..peers import frame
        for k, off in enumerate(noise):
            rig.net.inject(rig.spa._transport, frame(SPA_ID, CLIENT_ID, b"XNOIS" + bytes([k])), SPA_ADDR, delay=off)
    with rig.loop.running():
        tasks = [rig.loop.create_task(caller(w, o), name=f"HARNESS:caller:{w}") for w, o in zip(callers, offsets)]
    horizon = max(offsets) + len(callers) * R * (TIMEOUT + PAUSE + 1.0) + 5.0
    cancelled = set()
    if cancel is not None:
        # the client gives up on one caller (asyncio.wait_for around a facade call expires): its task is cancelled at that
        # moment, wherever it is - queued for the lock, in flight, pausing
        cw, ct = cancel
        rig.loop.call_at(rig.loop.time() + ct, tasks[callers.index(cw)].cancel)
        cancelled.add(cw)
    t_closed = []
    if close_at is not None:
        # the endpoint goes away under the callers (fatal socket error / disconnect by another task)
        proto_ = rig.spa._protocol

        def close_it():
            t_closed.append(rig.loop.time())
            proto_.disconnect()

        rig.loop.call_at(rig.loop.time() + close_at, close_it)
    rig.loop.run_for(horizon, lambda: all(t.done() for t in tasks))
    why = None
    # ---- oracle ---------------------------------------------------------------------
    sent = []  # (t, who, seq)
    arrived = []  # (t, who) replies sent by the spa (arrival = +latency/delay)
    for (t, src, dst, data) in rig.net.sent[mark:]:
        p = unframe(data)
        if p is None:
            continue
        if src == rig.client_addr:
            for who in callers:
                if p[2].startswith(REQ[who]):
                    sent.append((t, who, p[2][5] if len(p[2]) > 5 else None))
    for (t, fate, src, dst, data) in rig.net.log:
        if src == SPA_ADDR and fate != "drop":
            p = unframe(data)
            if p:
                for who in callers:
                    if p[2].startswith(REP[who]):
                        d = float(fate.split(":")[1]) if fate.startswith("delay") else 0.0
                        arrived.append((t + d + rig.net.latency, who))
    for t in tasks:
        if not t.done():
            why = ("liveness", f"caller {t.get_name()} did not complete within {horizon}s"
                               f"{' after ' + str(sorted(cancelled)) + ' was cancelled' if cancelled else ''}")
        elif t.cancelled():
            if t.get_name().split(":")[-1] not in cancelled:
                why = ("raised", f"caller {t.get_name()} was cancelled by the library")
        elif t.exception() is not None:
            why = ("raised", f"caller {t.get_name()} raised {t.exception()!r}")
    callers_all = callers
    callers = tuple(w for w in callers if w not in cancelled or w in results)
    if why is None:
        for who in callers:
            Rw = 1 if who == "ping" else R
            mine = [s for s in sent if s[1] == who]
            if len(mine) > Rw:
                why = ("attempts", f"{who}: {len(mine)} transmissions, retry count {Rw}")
            seqs = [s[2] for s in mine]
            if who != "ping" and len(set(seqs)) != len(seqs):
                why = ("not-fresh", f"{who}: attempts re-used a request object (sequence bytes {seqs})")
            myw = [w for w in rig.waits if w[0] == f"HARNESS:caller:{who}"]
            if who == "status":
                # one wait per segment: only the request budget, freshness, completion and one-in-flight clauses apply
                if myw and done_at[who] - myw[0][2] > Rw * (TIMEOUT + PAUSE) + Rw * 3 * POLL + 0.5:
                    why = ("slow", f"status: completed {done_at[who]-myw[0][2]:.2f}s after its first attempt")
                continue
            if len(myw) != len(mine) and not t_closed:  # (attempts made on a closed endpoint transmit nothing)
                why = ("attempts", f"{who}: {len(mine)} transmissions but {len(myw)} waits")
            got = any(w[4] for w in myw)
            if (results.get(who) is not None) != got:
                why = ("result", f"{who}: get returned {results.get(who)!r} but a reply was "
                                 f"{'popped' if got else 'never popped'} for it")
            if results.get(who) is not None:
                if not any(a[1] == who and enter[who] <= a[0] <= done_at[who] + 1e-9 for a in arrived):
                    why = ("phantom-reply", f"{who}: get returned a reply although none arrived during the call")
            else:
                # a reply that arrived well inside one of its waits must have been taken - judged with at most one
                # timer deviation (< half a polling interval of jitter): with wake-up jitter close to a whole polling interval the unhandled consumer may legitimately
                # discard a reply before the waiter's next poll (the statement allows reporting failure then)
                for w in (myw if sum(1 for k_, n_, c in ch.trace if k_ == "timer" and c) <= 1 and not t_closed else ()):
                    if any(a[1] == who and w[2] <= a[0] <= w[3] - 0.35 for a in arrived):
                        why = ("missed-reply", f"{who}: reported failure although a reply arrived during its wait "
                                               f"[{w[2]-t_base:.2f},{w[3]-t_base:.2f}]")
                # sharper, on the default schedule: the reply's CONTENT was put at the head of an empty queue during the
                # waiter's final polling period - nobody else can have removed it (the discarding consumer needs a whole
                # period after marking it), so it is there at the waiter's last look
                if why is None and not t_closed and stall == 0.0 and not any(c for k_, n_, c in ch.trace):
                    for w in myw:
                        if not w[4] and any(w[3] - POLL + 1e-6 < t_ < w[3] - 1e-6 and n_ == 0 and d_.startswith(REP[who])
                                            and not (who == "ping" and len(d_) == 5) for (t_, d_, n_) in puts):
                            why = ("missed-reply", f"{who}: reported failure although its reply was at the head of the receive queue "
                                                   f"before the last look of its wait [{w[2]-t_base:.2f},{w[3]-t_base:.2f}]")
            # completion bound
            if myw:
                start = myw[0][2]
                bound = Rw * (TIMEOUT + PAUSE) + Rw * (3 * POLL + 6 * stall) + 0.5
                if done_at[who] - start > bound:
                    why = ("slow", f"{who}: completed {done_at[who]-start:.2f}s after its first attempt, bound {bound:.2f}")
    if why is None:
        # one in flight: wait intervals of different callers are pairwise disjoint, and every request
        # is transmitted inside its caller's own wait-or-pause window
        hw = sorted((w for w in rig.waits if w[0].startswith("HARNESS:caller:")), key=lambda w: w[2])
        for a, b in zip(hw, hw[1:]):
            if b[2] < a[3] - 1e-9:
                why = ("overlap", f"two requests outstanding: {a[0]} waits [{a[2]-t_base:.2f},{a[3]-t_base:.2f}] "
                                  f"and {b[0]} from {b[2]-t_base:.2f}")
        for (t, who, seq) in sent:
            for w in hw:
                if w[0] != f"HARNESS:caller:{who}" and w[2] + 1e-9 < t < w[3] - 1e-9:
                    why = ("overlap", f"{who} transmitted at {t-t_base:.2f} while {w[0]} was waiting")
    if why is None and len(callers) > 1 and not cancelled:
        # service order = arrival order at the lock
        order_in = sorted(callers, key=lambda w: (enter[w], callers.index(w)))
        first_tx = {}
        for (t, who, seq) in sent:
            first_tx.setdefault(who, t)
        order_out = sorted(callers, key=lambda w: first_tx.get(w, 1e18))
        strict = all(abs(enter[a] - enter[b]) > 1e-9 for a, b in itertools.combinations(callers, 2))
        if strict and order_in != order_out:
            why = ("order", f"callers entered {order_in} but were served {order_out}")
    if why is None and t_closed:
        late = [(round(t - t_closed[0], 2), w) for (t, w, sq) in sent if t > t_closed[0] + 1e-9]
        if late:
            why = ("sent-after-close", f"transmissions after the endpoint was closed: {late[:3]}")
    if why is None and (rig.loop.exceptions or [r for r in lib.LOG.records if not t_closed]):
        why = ("engine", f"errors: {lib.LOG.records[:2]} {rig.loop.exceptions[:2]}")
    obs = core.digest([[w, results.get(w) is not None, round(done_at.get(w, -1) - t_base, 3)] for w in callers_all])
    rig.close()
    return why, obs


def _engine_job(job):
    prefix = job[1]
    noise = None
    if len(job[0]) > 5:
        noise = job[0][5]
    (callers, offsets, R, window, faulty) = job[0][:5]
    batch = len(job[0]) > 6 and bool(job[0][6])
    cancel = job[0][7] if len(job[0]) > 7 else None
    close_at = job[0][8] if len(job[0]) > 8 else None

    def body(ch):
        why, obs = _engine_run(ch, callers, offsets, R, window, faulty, noise=noise, batch=batch, cancel=cancel, close_at=close_at)
        viol = []
        if why:
            fv = [(k, c) for k, n, c in ch.trace if c]
            viol.append((f"C06|engine|{why[0]}|n={len(callers)}",
                         f"callers {callers} at offsets {offsets} R={R}, deviations {fv}: {why[1]}",
                         {"mode": "engine", "callers": list(callers), "offsets": list(offsets), "R": R,
                          "window": window, "faulty": list(faulty), "noise": noise, "batch": batch, "cancel": list(cancel) if cancel else None, "close_at": close_at, "prefix": [list(p) for p in ch.trace]}))
        return {"violations": viol, "obs": obs, "end": obs}

    return explore.run_with(prefix, body)


def _stall_job(job):
    who, R, stall, fate = job
    lib.reset_library()
    return _engine_run(Chooser(), (who,), (0.0,), R, 0.0, (who,), fixed=fate, stall=stall)


def _latency_job(job):
    who, d = job[:2]
    off = job[2] if len(job) > 2 else 0.0  # the call starts off the pollers' common grid
    lib.reset_library()
    return _engine_run(Chooser(), (who,), (off,), 1, 0.0, (who,), fixed=f"delay:{d}")


# ------------------------------------------------------------------------------------------
# Part A4: the library's OWN concurrent callers (ping loop, refresh loop, facade update, a user command) on the
# whole stack, around a mode switch - the moment everything wakes at once and contends for the lock


def _full_run(ch, window, scenario):
    from ..rig import Rig

    rig = Rig(ch, window=window)
    rig.loop.timer_choices_enabled = False
    waits = []
    orig = GeckoUdpProtocolHandler.wait_for_response

    async def monitored(handler, protocol):
        import asyncio

        t0 = rig.loop.time()
        name = asyncio.current_task().get_name()
        res = None
        try:
            res = await orig(handler, protocol)
            return res
        finally:
            waits.append((name, type(handler).__name__, t0, rig.loop.time(), res, id(protocol)))

    GeckoUdpProtocolHandler.wait_for_response = monitored
    why = None
    try:
        if not rig.connect(60.0):
            raise core.HarnessError("C06 full stack: no connection")
        rig.loop.run_for(3.0)
        fac = rig.facade
        mark = len(rig.net.sent)
        del waits[:]
        rig.loop.timer_choices_enabled = True
        t_base = rig.loop.time()
        cmds = []
        if scenario in ("pump-on", "lost-refresh", "lost-watercare"):
            cmds = [fac.pumps[0].async_set_mode(fac.pumps[0].modes[-1])]
        elif scenario == "pump-on-off":
            cmds = [fac.pumps[0].async_set_mode(fac.pumps[0].modes[-1]), fac.pumps[0].async_set_mode("OFF")]
        elif scenario == "three-commands":
            cmds = [fac.pumps[0].async_set_mode(fac.pumps[0].modes[-1]), rig.spa.async_get_watercare(), rig.spa.async_press(16)]
        tasks = [rig.spawn(c, name=f"HARNESS:cmd{i}") for i, c in enumerate(cmds)]
        # the spa model is the plain simulator here: echo the pump state so that the facade switches to the active table
        def echo():
            acc = rig.spa.accessors
            a = acc.get("P1")
            if a is not None:
                from ..refmodels.bitfield import Field
                from ..peers import frame
                f = Field.of(a)
                nb = f.put_raw(rig.peer.block, len(a.items) - 1 if a.items else 1)
                rig.peer.set_block(nb)
                content = b"STATP\x01" + f.pos.to_bytes(2, "big") + nb[f.pos:f.pos + 2]
                rig.net.inject(rig.spa._transport, frame(SPA_ID, rig.man._client_id, content), SPA_ADDR)

        rig.loop.call_at(rig.loop.time() + 0.35, echo)
        if scenario in ("lost-refresh", "lost-watercare"):
            # one request of a background loop loses its reply: it holds the lock for a whole time-out while the (2 s) ping
            # becomes due behind it - every ping is answered promptly once it is sent
            verb = b"STATU" if scenario == "lost-refresh" else b"GETWC"
            lost = []
            t_arm = rig.loop.time()

            def drop(data, src):
                if verb in data and not lost and rig.loop.time() >= t_arm:
                    lost.append(rig.loop.time())
                    return True
                return False

            rig.peer.drop_request = drop
            rig.loop.run_for(25.0)
        rig.loop.run_for(9.0)
        rig.loop.timer_choices_enabled = False
        for t in tasks:
            if not t.done():
                why = ("liveness", f"{t.get_name()} did not complete within 9 s on a healthy link")
            elif t.exception() is not None:
                why = ("raised", f"{t.get_name()} raised {t.exception()!r}")
        hw = sorted(waits, key=lambda w: w[2])
        for a, b in zip(hw, hw[1:]):
            if why is None and a[5] == b[5] and b[2] < a[3] - 1e-9:
                why = ("overlap", f"two requests outstanding on one connection: {a[0]} ({a[1]}) waits "
                                  f"[{a[2]-t_base:.2f},{a[3]-t_base:.2f}] and {b[0]} ({b[1]}) from {b[2]-t_base:.2f}")
        # (with two deviations the accumulated wake-up jitter approaches a whole polling interval and the unhandled
        #  consumer may legitimately discard a reply before its waiter polls again - not judged then)
        if why is None and scenario in ("lost-refresh", "lost-watercare"):
            bad = [w for w in hw if w[1] == "GeckoPingProtocolHandler" and w[4] is False]
            if bad and sum(1 for k_, n_, c in ch.trace if k_ == "timer" and c) <= 1:
                why = ("ping-timeout", f"a ping waited [{bad[0][2]-t_base:.2f},{bad[0][3]-t_base:.2f}] and was reported missed although the spa "
                                       f"answers every ping at once (it had queued behind a request that lost its reply)")
        elif why is None and sum(1 for k_, n_, c in ch.trace if k_ == "timer" and c) <= 1 and any(w[4] is False for w in hw):
            bad = [w for w in hw if w[4] is False][0]
            why = ("timeout", f"{bad[0]} ({bad[1]}) timed out on a fault-free link")
        if why is None and (lib.LOG.records or rig.loop.exceptions):
            why = ("engine", f"errors: {lib.LOG.records[:2]} {rig.loop.exceptions[:2]}")
        obs = core.digest([(w[0], w[1], round(w[2] - t_base, 2)) for w in hw])
    finally:
        GeckoUdpProtocolHandler.wait_for_response = orig
    rig.exit()
    rig.close()
    return why, obs


def _full_job(job):
    (window, scenario), prefix = job

    def body(ch):
        why, obs = _full_run(ch, window, scenario)
        viol = []
        if why:
            viol.append((f"C06|full-stack|{why[0]}|{scenario}", f"scenario {scenario}, deviations {[(k, c) for k, n, c in ch.trace if c]}: {why[1]}",
                         {"mode": "full", "window": window, "scenario": scenario, "prefix": [list(p) for p in ch.trace]}))
        return {"violations": viol, "obs": obs, "end": obs}

    return explore.run_with(prefix, body)


# ------------------------------------------------------------------------------------------
# Part B: gates

GATED = ["async_press", "set_value", "async_get_watercare", "async_set_watercare", "async_get_reminders"]
GATED_VERBS = (b"SPACK", b"GETWC", b"SETWC", b"REQRM")


def _gate_job(job):
    api, offset, queued = job[:3]
    active = len(job) > 3 and bool(job[3])
    from ..rig import Rig

    rig = Rig(Chooser())
    if not rig.connect(60.0):
        raise core.HarnessError("C06 gates: stack did not connect")
    spa = rig.spa
    if active:
        # the configuration clients use while their UI is open: ping every 2 s, timeout 4 s, not-responding after 10 s
        # (the facade selects it while a pump/blower/light is on: the spa reports pump 1 running)
        rig.loop.run_for(1.0)
        from ..refmodels.bitfield import Field
        from ..peers import frame
        a = spa.accessors.get("P1")
        if a is None:
            raise core.HarnessError("C06 gates: default snapshot has no P1")
        f = Field.of(a)
        nb = f.put_raw(rig.peer.block, len(a.items) - 1 if a.items else 1)
        rig.peer.set_block(nb)
        rig.net.inject(spa._transport, frame(SPA_ID, rig.man._client_id,
                                             b"STATP\x01" + f.pos.to_bytes(2, "big") + nb[f.pos:f.pos + 2]), SPA_ADDR)
        rig.loop.run_for(6.0)
        if gconfig.GeckoConfig.PING_FREQUENCY_IN_SECONDS >= 60:
            raise core.HarnessError("C06 gates: the stack did not switch to the active configuration")
    # run to just after a successful ping, then the spa goes dark
    n_ping = sum(1 for e in rig.man.events if e[1].name == "RUNNING_PING_RECEIVED")
    rig.loop.run_for(200.0, lambda: sum(1 for e in rig.man.events if e[1].name == "RUNNING_PING_RECEIVED") > n_ping)
    rig.loop.run_for(0.5)
    t_dark = rig.loop.time()
    last_ok = [e[0] for e in rig.man.events if e[1].name == "RUNNING_PING_RECEIVED"][-1]
    rig.peer.set_mode("blackout")
    freq = gconfig.GeckoConfig.PING_FREQUENCY_IN_SECONDS
    deadline = last_ok + 2 * freq  # from here on the spa is "not responding to pings"
    mark = len(rig.net.sent)

    async def call():
        if api == "async_press":
            await spa.async_press(1)
        elif api == "set_value":
            await spa._on_async_set_value(300, 1, 1)
        elif api == "async_get_watercare":
            await spa.async_get_watercare()
        elif api == "async_set_watercare":
            await spa.async_set_watercare(2)
        elif api == "async_get_reminders":
            await spa.async_get_reminders()

    t_call = deadline + offset
    if queued:
        # a request that is timing out holds the lock when the API is invoked: start a reminders/
        # watercare query (different verb from the one under test) a few seconds earlier, while
        # the gate is still open
        other = spa.async_get_watercare if api != "async_get_watercare" else spa.async_get_reminders
        t_other = min(t_call - 3.0, deadline - 1.0) if not active else min(t_call - 1.5, deadline - 0.5)
        rig.loop.run_until(t_other)
        rig.spawn(other(), name="HARNESS:blocker")
    rig.loop.run_until(t_call)
    gate_at_call = spa.is_connected and (rig.loop.time() - last_ok) < 2 * freq
    task = rig.spawn(call(), name="HARNESS:gated")
    rig.loop.run_for(150.0, task.done)
    why = None
    first = {}
    verb_of = {"async_press": b"SPACK", "set_value": b"SPACK", "async_get_watercare": b"GETWC",
               "async_set_watercare": b"SETWC", "async_get_reminders": b"REQRM"}[api]
    for (t, src, dst, data) in rig.net.sent[mark:]:
        p = unframe(data)
        if p is None or src == SPA_ADDR:
            continue
        if p[2].startswith(verb_of) and verb_of not in first:
            first[verb_of] = t
    if verb_of in first:
        t = first[verb_of]
        ok_now = (t - last_ok) < 2 * freq
        if not ok_now:
            why = ("gate", f"{api} invoked at deadline{offset:+.1f}s (gate {'open' if gate_at_call else 'closed'}), "
                           f"{verb_of.decode()} first transmitted {t - deadline:.2f}s after the spa stopped answering pings"
                           f"{' (queued behind a timing-out request)' if queued else ''}"
                           f"{' [active configuration]' if active else ''}")
    res = (verb_of in first, gate_at_call)
    rig.exit()
    rig.close()
    if why:
        # the recorded defect is check-then-act: gate open when invoked, lock wait, late transmission.
        # A transmission for a call made while the gate was already closed is a different violation.
        cls = "open-at-call-then-lock-wait" if gate_at_call else "closed-at-call"
        return (f"C06|gate|{api}|{cls}", why[1], {"mode": "gate", "api": api, "offset": offset, "queued": queued, "active": active}), res
    return None, res


def _unconnected_job(job):
    """A connection attempt that fails at step `lost` (every request of that verb is lost until the retries are used
    up): the spa never reports CONNECTION_SPA_COMPLETE, so it is not connected - no gated API and no background loop
    may put a command/query datagram on the wire afterwards (pings are not commands or queries)."""
    lost, api = job
    from ..vloop import VLoop
    from ..vnet import VNet
    from ..peers import SimPeer
    from geckolib import AsyncTasks, GeckoAsyncSpa, GeckoAsyncSpaDescriptor

    lib.reset_library()
    loop = VLoop(Chooser())
    net = VNet(loop)
    peer = SimPeer()
    net.add_peer(SPA_ADDR, peer)
    peer.drop_request = lambda data, src: lost in data
    events = []

    async def on_event(event, **kw):
        events.append(event.name)

    with loop.running():
        tasks = AsyncTasks()
        spa = GeckoAsyncSpa(CLIENT_ID, GeckoAsyncSpaDescriptor(SPA_ID, "Spa", SPA_ADDR), tasks, on_event)
        t = loop.create_task(spa.connect(), name="HARNESS:connect")
    loop.run_for(400.0, t.done)
    why = None
    if not t.done():
        raise core.HarnessError(f"C06: connect() with every {lost!r} lost did not return in 400 s")
    if "CONNECTION_SPA_COMPLETE" in events:
        raise core.HarnessError(f"C06: connection completed although every {lost!r} was lost")
    mark = len(net.sent)
    t_fail = loop.time()

    async def call():
        if api == "async_press":
            await spa.async_press(1)
        elif api == "set_value":
            await spa._on_async_set_value(300, 1, 1)
        elif api == "async_get_watercare":
            await spa.async_get_watercare()
        elif api == "async_set_watercare":
            await spa.async_set_watercare(2)
        elif api == "async_get_reminders":
            await spa.async_get_reminders()

    if api != "background":
        with loop.running():
            c = loop.create_task(call(), name="HARNESS:gated")
        loop.run_for(80.0, c.done)
        if c.done() and not c.cancelled() and c.exception() is not None and not isinstance(c.exception(), AssertionError):
            why = ("raised", f"{api} on the unconnected spa raised {c.exception()!r}")
    else:
        loop.run_for(400.0)  # more than one refresh period and several ping periods
    seen = []
    for (tm, src, dst, data) in net.sent[mark:]:
        p = unframe(data)
        if p is not None and src != SPA_ADDR and p[2][:5] in GATED_VERBS + (b"STATU",):
            seen.append((round(tm - t_fail, 2), p[2][:5].decode()))
    if why is None and seen:
        why = ("not-connected", f"connection attempt failed at {lost.decode()} (no CONNECTION_SPA_COMPLETE, events end "
                                f"{events[-2:]}), yet {'the background loops' if api == 'background' else api} put {seen[:4]} on the wire")
    with loop.running():
        for x in tasks._tasks:
            x.cancel()
    loop.run_for(1.0)
    loop.shutdown()
    if why:
        return (f"C06|gate|{api}|{why[0]}|failed-at={lost.decode()}", why[1], {"mode": "unconnected", "lost": lost, "api": api})
    return None


# ------------------------------------------------------------------------------------------


def run(ctx):
    execs = 0
    states = set()
    # A1: all fate vectors, 1..3 callers
    verbs = ["version", "channel", "watercare", "ping", "press"]
    plans = []
    for R in ((1, 2) if ctx.quick else (1, 2, 3)):
        for who in verbs:
            plans.append(((who,), (0.0,), R, 0.0, (who,)))
    for R in (1, 2):
        for who in ("version", "press"):
            for nz in ((3.85,), (3.95,), (4.0,), (4.05,), (3.9, 4.0, 4.1), (9.95, 10.05)):
                plans.append(((who,), (0.0,), R, 0.0, (who,), nz))
    pairs = [("version", "channel"), ("ping", "press"), ("watercare", "version"), ("press", "channel"), ("channel", "ping")]
    for R in ((1, 2) if ctx.quick else (1, 2, 3)):
        for pr in pairs if not ctx.quick else pairs[:3]:
            for off in OFFSETS:
                plans.append((pr, (0.0, off), R, 0.0, pr))
    # the status-block request engine: every fate vector over its segments, alone and with a caller queued behind it
    for R in (1, 2, 3):
        plans.append((("status",), (0.0,), R, 0.0, ("status",)))
    plans.append((("status", "ping"), (0.0, 0.05), 2, 0.0, ("status",)))
    plans.append((("version", "status"), (0.0, 0.05), 2, 0.0, ("status",)))
    # one caller is cancelled by its client at every phase (queued, in flight, timing out, pausing): the others complete
    for cw, others in (("version", ("version", "channel", "press")), ("channel", ("version", "channel", "press")),
                       ("status", ("status", "ping")), ("press", ("watercare", "press"))):
        offs = (0.0, 0.05, 0.1)[:len(others)]
        for ct in (0.0, 0.02, 0.07, 0.12, 0.2, 1.0, 3.9, 4.05, 5.0, 6.1):
            plans.append((others, offs, 2, 0.0, (others[0],), None, False, (cw, ct)))
    # the endpoint closes under the callers at every phase: all of them still complete (with a failure) in bounded time
    for callers_ in (("version", "channel"), ("status", "ping"), ("press", "watercare", "version")):
        offs = (0.0, 0.05, 0.1)[:len(callers_)]
        for tc in (0.0, 0.02, 0.07, 0.12, 1.0, 3.9, 4.05, 5.0, 6.1):
            plans.append((callers_, offs, 2, 0.0, (callers_[0],), None, False, None, tc))
    triples = [("version", "press", "watercare"), ("ping", "channel", "press")]
    for tr in triples:
        for o1, o2 in itertools.product(OFFSETS[:3] if ctx.quick else OFFSETS, repeat=2):
            plans.append((tr, (0.0, o1, o2), 1, 0.0, tr))
            if not ctx.quick:
                plans.append((tr, (0.0, o1, o2), 2, 0.0, tr[:2]))
    # the configured R=10 against total loss (needs only the default fate = handled by drop-all below)
    for i, plan in enumerate(plans):
        st = explore.explore(ctx, _engine_job, plan, bound=64, choice_kinds={"fate"}, label=f"engine{plan[:3]}",
                             max_execs=200000)
        execs += st["executions"]
        states.update(st["obs"])
    ctx.set("engine_fate_plans", len(plans))
    ctx.set("engine_fate_executions", execs)
    ctx.log(f"engine: {len(plans)} caller/offset/R plans, all fate vectors: {execs} executions, {len(states)} outcomes")

    # A2: polling-phase jitter (timer order) on top of fault-free and faulty runs
    tb = 1 if ctx.quick else 2
    tplans = [
        (("version", "channel"), (0.0, 0.0), 2, 0.049, ()),
        (("version", "channel"), (0.0, 0.05), 2, 0.049, ("version",)),
        (("ping", "press"), (0.0, 0.1), 1, 0.049, ("ping",)),
        (("version", "press", "watercare"), (0.0, 0.05, 0.1), 1, 0.049, ()),
    ]
    texecs = 0
    for plan in tplans:
        st = explore.explore(ctx, _engine_job, plan, bound=tb, label=f"engine-timers{plan[:3]}",
                             max_execs=60000 if ctx.quick else 400000)
        texecs += st["executions"]
        states.update(st["obs"])
        explore.fold_stats(ctx, st, prefix="timers_")
    # A2b: timers that expire together run back to back (asyncio's batch), e.g. a caller arriving in the very
    # iteration in which the lock holder finishes, ahead of the queued waiter's wake-up
    # the third caller's arrival sweeps a 10 ms grid over three polling periods, i.e. every alignment with the
    # holder's finishing poll while the second caller is queued
    bplans = [(("version", "press", "watercare"), (0.0, 0.05, round(0.06 + 0.01 * i, 2)), 1, 0.049, (), None, True)
              for i in range(30)]
    bplans += [
        (("ping", "channel", "press"), (0.0, 0.1, 0.1), 1, 0.049, (), None, True),
        (("version", "channel"), (0.0, 0.1), 2, 0.049, (), None, True),
    ]
    bexecs = 0
    for plan in bplans:
        st = explore.explore(ctx, _engine_job, plan, bound=1 if ctx.quick else 2, choice_kinds={"timer", "batch"},
                             label=f"engine-batch{plan[:3]}", max_execs=20000 if ctx.quick else 200000)
        bexecs += st["executions"]
        states.update(st["obs"])
        explore.fold_stats(ctx, st, prefix="batch_")
    ctx.set("engine_batch_executions", bexecs)
    ctx.log(f"engine: timer-order + batch deviations: {bexecs} executions")
    texecs += bexecs
    ctx.set("engine_timer_executions", texecs)
    ctx.set("engine_timer_deviation_bound", tb)
    ctx.log(f"engine: timer-order deviations <= {tb}: {texecs} executions")
    execs += texecs

    # A4: the library's own callers on the whole stack around a mode switch, timer-order deviations
    fe = 0
    for scenario in ("pump-on", "pump-on-off", "three-commands", "lost-refresh", "lost-watercare"):
        lost = scenario.startswith("lost")
        bnd = (0 if lost else 1) if ctx.quick else (1 if lost else 2)
        st = explore.explore(ctx, _full_job, (0.049, scenario), bound=bnd, label=f"full-stack {scenario}",
                             max_execs=(4000 if ctx.quick else 30000) if not lost else 3000)
        fe += st["executions"]
        states.update(st["obs"])
        explore.fold_stats(ctx, st, prefix="fullstack_")
    ctx.set("full_stack_executions", fe)
    ctx.log(f"full stack around a mode switch: {fe} executions")
    execs += fe

    # A5: slow replies: every reply latency on a 50 ms grid inside the time-out, one caller (a reply that arrives well
    # inside the wait is the caller's reply: it must be returned, not reported as a failure)
    lat = [round(0.05 * i, 2) for i in range(1, 72)]
    # ... and right up to the time-out: a reply that is there at the last look before the time-out counts
    near = [3.6, 3.7, 3.8, 3.85, 3.9, 3.92, 3.95, 3.97, 3.99]
    ljobs = [(who, d) for who in ("version", "ping") for d in (lat if not ctx.quick else lat[::2]) + near]
    ljobs += [(who, d, off) for who in ("version", "ping", "press") for d in near for off in (0.03, 0.07)]
    for (why, obs), (who, d, *off_) in zip(core.pmap(ctx, _latency_job, ljobs, chunksize=4), ljobs):
        states.add(obs)
        if why:
            ctx.violation(f"C06|engine|{why[0]}|slow-reply|{who}", f"{who} answered once after {d:.2f}s: {why[1]}",
                          {"mode": "latency", "who": who, "delay": d, "offset": off_[0] if off_ else 0.0})
    ctx.set("slow_reply_runs", len(ljobs))
    execs += len(ljobs)

    # A6: event-loop stalls: every wake-up late by 50 / 90 ms; time-outs and pauses are measured on the clock, so the
    # completion bound only grows by a few stalls
    sjobs = [(who, R, st, fate) for who in ("version", "press", "status") for R in (1, 2) for st in (0.05, 0.09) for fate in ("drop", "deliver")]
    for (why, obs), job in zip(core.pmap(ctx, _stall_job, sjobs, chunksize=2), sjobs):
        states.add(obs)
        if why:
            ctx.violation(f"C06|engine|{why[0]}|stalled-loop|{job[0]}", f"{job[0]} R={job[1]} replies {job[3]}, every wake-up {job[2]}s late: {why[1]}",
                          {"mode": "stall", "job": list(job)})
    ctx.set("stalled_loop_runs", len(sjobs))
    execs += len(sjobs)

    # A3: configured retry count against total loss
    lib.reset_library()
    why, obs = _engine_run(Chooser(), ("version",), (0.0,), 10, 0.0, ("version",), fixed="drop")
    if why:
        ctx.violation(f"C06|engine|{why[0]}|R=10", f"all ten replies lost: {why[1]}", {"mode": "R10"})
    execs += 1

    # B: gates
    offs = [x / 10.0 for x in range(-30, 31, 1)] if not ctx.quick else [x / 10.0 for x in range(-12, 13, 2)]
    # long after the gate closed: past the not-responding report(s) of the ping loop
    offs += [8.0, 15.0, 40.0, 75.0, 130.0, 200.0]
    jobs = [(api, off, q) for api in GATED for off in offs for q in (False, True)]
    # the same in the active configuration (gate window 2 x 2 s, library's own not-responding report at 10 s)
    aoffs = [x / 10.0 for x in range(-12, 13, 4 if ctx.quick else 1)] + [2.0, 3.5, 5.0, 5.8, 6.2, 8.0, 15.0, 40.0]
    jobs += [(api, off, q, True) for api in GATED for off in aoffs for q in (False, True)]
    sent_n = 0
    for (viol, res), job in zip(core.pmap(ctx, _gate_job, jobs, chunksize=2), jobs):
        if viol:
            ctx.violation(*viol)
        sent_n += 1 if res[0] else 0
        states.add(("gate", job[0], job[2], len(job) > 3, res))
    ctx.set("gate_runs", len(jobs))
    ctx.set("gate_runs_that_transmitted", sent_n)
    if sent_n == 0:
        raise core.HarnessError("gate scenarios never transmitted a command - vacuous")
    execs += len(jobs)

    # B2: a spa whose connection attempt failed is not connected
    ujobs = [(lost, api) for lost in (b"STATU", b"SFILE", b"CURCH", b"AVERS") for api in GATED + ["background"]]
    for viol, job in zip(core.pmap(ctx, _unconnected_job, ujobs, chunksize=1), ujobs):
        states.add(("unconnected", job, viol is None))
        if viol:
            ctx.violation(*viol)
    ctx.set("failed_connection_gate_runs", len(ujobs))
    execs += len(ujobs)

    ctx.set("states", len(states))
    ctx.set("transitions", execs)
    ctx.set("traces_validated_against_impl", execs)
    ctx.sample({"callers": ["version", "channel"], "offsets": [0.0, 3.95], "R": 2,
                "fates": ["drop", "deliver", "delay:4.3", "deliver"],
                "oracle": "attempts<=R, fresh sequence per attempt, wait intervals disjoint, FIFO service, result iff reply popped"})
    ctx.sample({"gate": "async_press at (last ping + 2*period) + 0.4s, queued behind a timing-out GETWC",
                "oracle": "no first SPACK transmission while not responding to pings"})
    ctx.assume("states = distinct (result, completion time) outcomes; each execution is an implementation trace")
    ctx.assume("wait intervals observed by a monitor around GeckoUdpProtocolHandler.wait_for_response installed by the harness")


def replay(ctx, data):
    m = data.get("mode")
    if m == "engine":
        plan = (tuple(data["callers"]), tuple(data["offsets"]), data["R"], data["window"], tuple(data["faulty"]))
        if data.get("noise") or data.get("batch") or data.get("cancel") or data.get("close_at") is not None:
            plan = plan + (tuple(data["noise"]) if data.get("noise") else None, bool(data.get("batch")))
            if data.get("cancel") or data.get("close_at") is not None:
                plan = plan + (((data["cancel"][0], data["cancel"][1]) if data.get("cancel") else None),)
            if data.get("close_at") is not None:
                plan = plan + (data["close_at"],)
        res = _engine_job((plan, [tuple(p) for p in data["prefix"]]))
        ctx.merge_violations(res["violations"])
    elif m == "full":
        res = _full_job(((data["window"], data["scenario"]), [tuple(p) for p in data["prefix"]]))
        ctx.merge_violations(res["violations"])
    elif m == "gate":
        v, _ = _gate_job((data["api"], data["offset"], data["queued"], data.get("active", False)))
        if v:
            ctx.violation(*v)
    elif m == "unconnected":
        v = _unconnected_job((data["lost"], data["api"]))
        if v:
            ctx.violation(*v)
    elif m == "stall":
        why, _ = _stall_job(tuple(data["job"]))
        if why:
            ctx.violation(f"C06|engine|{why[0]}|stalled-loop|{data['job'][0]}", why[1], data)
    elif m == "latency":
        why, _ = _latency_job((data["who"], data["delay"], data.get("offset", 0.0)))
        if why:
            ctx.violation(f"C06|engine|{why[0]}|slow-reply|{data['who']}", why[1], data)
    elif m == "R10":
        why, _ = _engine_run(Chooser(), ("version",), (0.0,), 10, 0.0, ("version",), fixed="drop")
        if why:
            ctx.violation(f"C06|engine|{why[0]}|R=10", why[1], data)
    ctx.set("states", 1)
    ctx.set("transitions", 1)
    ctx.set("traces_validated_against_impl", 1)
