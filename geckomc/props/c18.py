"""C18 - pack tables are well-formed, consistent, and published layouts never change.

Complete enumeration of the finite table set (all shipped modules / ~20,500 items):
  * every item addressable: bytes inside the 1024-byte block, bit field inside its bytes, every label
    index representable in the field (reference geometry from the raw declarations);
  * every key a table advertises (outputs, devices' user demands, error keys) names an item; log refresh
    window inside the block;
  * module names agree with the platform/version they declare and with the config-file naming a spa
    reports (FILES reply built by the library for the declared name/version decodes back to the module);
  * layout pin: declaration + effective geometry of every item and the key lists of every table, dumped
    at the audited commit into /verif/pins/, compared item by item (new modules allowed, pinned ones
    immutable).
"""
from __future__ import annotations

import glob
import gzip
import json
import os

from .. import core, lib
from ..refmodels.bitfield import Field

LEVEL = "exploration"

lib.capture_declarations()

from geckolib.driver import GeckoConfigFileProtocolHandler, GeckoStructure  # noqa: E402

PINS = os.path.join(core.VERIF, "pins")


def dump_module(name):
    """Canonical description of one module (used for the pin and for the comparison)."""
    st = GeckoStructure(lambda *a: None)
    mod = lib.pack_module(name)
    out = {}
    if hasattr(mod, "GeckoPack"):
        p = mod.GeckoPack(st)
        out["pack"] = {"name": p.name, "type": p.type, "revision": p.revision}
    for cls, kind in (("GeckoConfigStruct", "cfg"), ("GeckoLogStruct", "log")):
        if hasattr(mod, cls):
            t = getattr(mod, cls)(st)
            d = {"version": t.version}
            for k in ("output_keys", "all_device_keys", "user_demand_keys", "error_keys", "begin", "end"):
                if hasattr(t, k):
                    v = getattr(t, k)
                    d[k] = list(v) if isinstance(v, (list, tuple)) else v
            items = {}
            for tag, a in t.accessors.items():
                dd = a._decl
                items[tag] = [dd["cls"], dd["type"], dd["pos"], dd["bitpos"], dd["items"], dd["size"], dd["maxitems"], dd["rw"],
                              a.length, getattr(a, "bitmask", None) if dd["bitpos"] is not None else None, a.tag]
            d["items"] = items
            out[kind] = d
    return out


def _check_module(name):
    d = dump_module(name)
    bad = []
    n = 0
    plat = name.split("-cfg-")[0].split("-log-")[0]
    if "pack" in d:
        n += 1
        if d["pack"]["name"].lower() != name:
            bad.append(("name", f"module {name} declares pack name {d['pack']['name']!r}"))
        if not isinstance(d["pack"]["type"], int) or not (0 <= d["pack"]["type"] <= 255):
            bad.append(("pack-type", f"module {name} declares pack type {d['pack']['type']!r}"))
    for kind in ("cfg", "log"):
        if kind not in d:
            continue
        t = d[kind]
        ver = int(name.rsplit("-", 1)[1])
        n += 1
        if t["version"] != ver:
            bad.append(("version", f"module {name} declares version {t['version']}"))
        # config-file naming round trip through the library's own FILES codec
        packname = lib.pack_module(plat).GeckoPack(None).name
        h = GeckoConfigFileProtocolHandler.response(packname, ver if kind == "cfg" else 1, ver if kind == "log" else 1, parms=(1, 2, b"a", b"b"))
        r = GeckoConfigFileProtocolHandler()
        r.handle(h._content, None)
        got = f"{r.plateform_key.lower()}-{kind}-{r.config_version if kind == 'cfg' else r.log_version}"
        if got != name:
            bad.append(("files-naming", f"FILES reply for {packname} v{ver} resolves to module {got!r}, not {name!r}"))
        items = t["items"]
        for key_list in ("output_keys", "user_demand_keys", "error_keys"):
            for k in t.get(key_list, []):
                n += 1
                if k not in items:
                    # keys of the config struct may name items of the paired log struct and vice versa: resolved in _cross
                    bad.append(("dangling-key?", (key_list, k)))
        if kind == "log":
            n += 1
            if not (0 <= t["begin"] < 1024 and 0 < t["end"] and t["begin"] + t["end"] <= 1024):
                bad.append(("refresh-window", f"{name}: begin {t['begin']} end {t['end']} (used as start/length of the refresh request)"))
        for tag, it in items.items():
            n += 1
            cls, typ, pos, bitpos, labels, size, maxitems, rw, length, mask, atag = it
            f = Field(typ, pos, bitpos, size, maxitems, labels)
            if atag != tag:
                bad.append((f"tag|{tag}", f"{name}:{tag} carries tag {atag!r}"))
            if not (0 <= pos and pos + f.width <= 1024):
                bad.append((f"outside-block|{tag}", f"{name}:{tag} occupies bytes {pos}..{pos + f.width - 1}"))
            if length != f.width:
                bad.append((f"width|{tag}", f"{name}:{tag} effective width {length}, declaration implies {f.width}"))
            if bitpos is not None:
                if (f.mask << f.shift) >= (1 << (8 * f.width)):
                    bad.append((f"bits-outside-bytes|{tag}", f"{name}:{tag} bit field mask {f.mask:#x} at bit {bitpos} exceeds its {f.width} byte(s)"))
                if mask != f.mask:
                    bad.append((f"mask|{tag}", f"{name}:{tag} effective mask {mask!r}, declaration (MaxItems {maxitems}) implies {f.mask}"))
            if typ == "Enum":
                # every label must be representable; trailing labels may be padding ("")
                last = max((i for i, lab in enumerate(labels) if lab != ""), default=0)
                if last > f.mask:
                    bad.append((f"label-unrepresentable|{tag}", f"{name}:{tag} label #{last} {labels[last]!r} does not fit a field with mask {f.mask:#x}"))
    return name, n, bad, d


def _cross(platform_dumps):
    """Keys advertised by one table that are not its own items must be items of the sibling tables of
    the platform (outputs are config items, demands/devices/errors are log items)."""
    bad = []
    return bad


def load_pin():
    files = sorted(glob.glob(os.path.join(PINS, "layout-*.json.gz")))
    if not files:
        return None, None
    with gzip.open(files[-1], "rt") as f:
        return json.load(f), os.path.basename(files[-1])


def write_pin():
    import subprocess

    sha = subprocess.check_output(["git", "-C", core.REPO, "log", "--format=%h", "-1"]).decode().strip()
    os.makedirs(PINS, exist_ok=True)
    d = {name: dump_module(name) for name in lib.pack_module_names()}
    path = os.path.join(PINS, f"layout-{sha}.json.gz")
    with gzip.GzipFile(path, "w", mtime=0) as gz:
        gz.write(json.dumps(d, sort_keys=True).encode())
    return path, len(d)


def compare_pin(pin, name, cur):
    out = []
    old = pin.get(name)
    if old is None:
        return out
    if old.get("pack") != cur.get("pack"):
        out.append(("pin-pack", f"{name}: pack header changed {old.get('pack')} -> {cur.get('pack')}"))
    for kind in ("cfg", "log"):
        if kind not in old:
            continue
        if kind not in cur:
            out.append(("pin-missing", f"{name}: {kind} table removed"))
            continue
        o, c = old[kind], cur[kind]
        for k in o:
            if k == "items":
                continue
            if o[k] != c.get(k):
                out.append(("pin-table", f"{name}: {k} changed {str(o[k])[:80]} -> {str(c.get(k))[:80]}"))
        for tag, it in o["items"].items():
            ci = c["items"].get(tag)
            if ci is None:
                out.append((f"pin-item-removed|{tag}", f"{name}:{tag} removed from a published layout"))
            elif json.loads(json.dumps(ci)) != it:
                fields = ["class", "type", "pos", "bitpos", "labels", "size", "maxitems", "rw", "width", "mask", "tag"]
                diff = [f"{fields[i]} {it[i]!r}->{ci[i]!r}" for i in range(len(fields)) if json.loads(json.dumps(ci[i])) != it[i]]
                out.append((f"pin-item|{tag}", f"{name}:{tag} layout changed: {'; '.join(diff)[:200]}"))
        for tag in c["items"]:
            if tag not in o["items"]:
                out.append((f"pin-item-added|{tag}", f"{name}:{tag} added to a published layout"))
    return out


def _key(cls, name):
    if "|" in cls:
        c, tag = cls.split("|", 1)
        return f"C18|{c}|{name}:{tag}"
    return f"C18|{cls}|{name}"


def run(ctx):
    names = lib.pack_module_names()
    pin, pinfile = load_pin()
    if pin is None:
        raise core.HarnessError("no layout pin under /verif/pins (run: python -m geckomc.props.c18 --write-pin)")
    evals = 0
    nitems = 0
    dumps = {}
    pend = {}
    for name, n, bad, d in core.pmap(ctx, _check_module, names, chunksize=4):
        evals += n
        dumps[name] = d
        for kind in ("cfg", "log"):
            if kind in d:
                nitems += len(d[kind]["items"])
        for cls, text in bad:
            if cls == "dangling-key?":
                pend.setdefault(name, []).append(text)
            else:
                ctx.violation(_key(cls, name), text, {"module": name})
        for cls, text in compare_pin(pin, name, d):
            ctx.violation(_key(cls, name), text + f" (pin {pinfile})", {"module": name})
        evals += 1
    for name in pin:
        if name not in dumps:
            ctx.violation(f"C18|pin-module-removed|{name}", f"published module {name} no longer shipped", {"module": name})
    # advertised keys: resolve against all tables of the platform (any version pairing a spa could report)
    plats = lib.platforms()
    for name, keys in pend.items():
        plat = name.split("-cfg-")[0].split("-log-")[0]
        sib_items = set()
        for kind in ("cfg", "log"):
            for v in plats[plat][kind]:
                sib_items.update(dumps[f"{plat}-{kind}-{v}"][kind]["items"].keys())
        for key_list, k in keys:
            if k not in sib_items:
                ctx.violation(f"C18|dangling-key|{name}", f"{name}: {key_list} advertises {k!r}, which no table of platform {plat} defines",
                              {"module": name})
    ctx.set("modules", len(names))
    ctx.set("items", nitems)
    ctx.set("pin", pinfile)
    ctx.set("pinned_modules", len(pin))
    ctx.set("evaluations", evals)
    ctx.set("distinct_nontrivial", nitems + len(names))
    ctx.set("rule", "cases = every item and every table header/key list of every shipped module, checked for geometry and compared "
            "with the pinned layout; distinct_nontrivial = items + modules (all distinct)")
    ctx.set("exhaustive", True)
    any_mod = next(n for n in names if "-log-" in n)
    tag, it = next(iter(dumps[any_mod]["log"]["items"].items()))
    ctx.sample({"module": any_mod, "item": tag, "declaration": it})
    ctx.assume("complete enumeration of a finite configuration space (not of behaviours); the pin was generated by this machinery "
               "at the commit named in the pin file")


def replay(ctx, data):
    pin, pinfile = load_pin()
    name, n, bad, d = _check_module(data["module"])
    for cls, text in bad:
        if cls != "dangling-key?":
            ctx.violation(_key(cls, name), text, data)
    for cls, text in compare_pin(pin or {}, name, d):
        ctx.violation(_key(cls, name), text, data)
    ctx.set("evaluations", 1)
    ctx.set("distinct_nontrivial", 2)
    ctx.set("rule", "replay")


if __name__ == "__main__":
    import sys

    if "--write-pin" in sys.argv:
        print(write_pin())
