"""C18 - pack tables are well-formed, consistent, and published layouts never change.

Complete enumeration of the finite table set (all shipped modules / ~20,500 items):
  * every item addressable: bytes inside the 1024-byte block, bit field inside its bytes, every label
    index representable in the field (reference geometry from the raw declarations);
  * every key a table advertises (outputs, devices' user demands, error keys) names an item; log refresh
    window inside the block;
  * module names agree with the platform/version they declare and with the config-file naming a spa
    reports (FILES reply built by the library for the declared name/version decodes back to the module);
  * layout pin: declaration + effective geometry of every item and the key lists of every table, dumped
    at the audited commit into /verif/pins/, compared item by item (new modules allowed, pinned ones
    immutable).
"""
from __future__ import annotations

import glob
import gzip
import itertools
import json
import os

from .. import core, lib
from ..refmodels.bitfield import Field

LEVEL = "exploration"

lib.capture_declarations()

from geckolib.driver import GeckoConfigFileProtocolHandler, GeckoStructure  # noqa: E402

PINS = os.path.join(core.VERIF, "pins")


_WRITABLE = {}


def _effective_writable(a, dd):
    """Does the item actually accept a write (behaviour, not the declared tag)?  Structural refusal only: a value error of
    the probe itself does not count."""
    if dd["pos"] + a.length > 1024:
        return dd["rw"] is not None
    typ = dd["type"]
    v = {"Bool": True, "Byte": 1, "Word": 1, "Time": "01:01"}.get(typ)
    if typ == "Enum":
        v = dd["items"][0]
    if dd["cls"] == "GeckoTempStructAccessor":
        return dd["rw"] is not None  # needs the unit item of another table; covered by C02
    try:
        a.value = v
        return True
    except Exception:  # noqa
        return False


def dump_module(name):
    """Canonical description of one module (used for the pin and for the comparison)."""
    st = GeckoStructure(lambda *a: None)
    mod = lib.pack_module(name)
    out = {}
    if hasattr(mod, "GeckoPack"):
        p = mod.GeckoPack(st)
        out["pack"] = {"name": p.name, "type": p.type, "revision": p.revision}
    for cls, kind in (("GeckoConfigStruct", "cfg"), ("GeckoLogStruct", "log")):
        if hasattr(mod, cls):
            t = getattr(mod, cls)(st)
            d = {"version": t.version}
            for k in ("output_keys", "all_device_keys", "user_demand_keys", "error_keys", "begin", "end"):
                if hasattr(t, k):
                    v = getattr(t, k)
                    d[k] = list(v) if isinstance(v, (list, tuple)) else v
            items = {}
            for tag, a in t.accessors.items():
                dd = a._decl
                # labels: what the accessor actually offers (a.items), which must be the published list as declared
                eff = list(a.items) if getattr(a, "items", None) is not None else None
                items[tag] = [dd["cls"], dd["type"], dd["pos"], dd["bitpos"], eff if eff != dd["items"] else dd["items"], dd["size"], dd["maxitems"], dd["rw"],
                              a.length, getattr(a, "bitmask", None) if dd["bitpos"] is not None else None, a.tag]
                _WRITABLE[(name, kind, tag)] = _effective_writable(a, dd)
            d["items"] = items
            out[kind] = d
    return out


def _check_module(name):
    d = dump_module(name)
    bad = []
    n = 0
    plat = name.split("-cfg-")[0].split("-log-")[0]
    if "pack" in d:
        n += 1
        if d["pack"]["name"].lower() != name:
            bad.append(("name", f"module {name} declares pack name {d['pack']['name']!r}"))
        if not isinstance(d["pack"]["type"], int) or not (0 <= d["pack"]["type"] <= 255):
            bad.append(("pack-type", f"module {name} declares pack type {d['pack']['type']!r}"))
    for kind in ("cfg", "log"):
        if kind not in d:
            continue
        t = d[kind]
        ver = int(name.rsplit("-", 1)[1])
        n += 1
        if t["version"] != ver:
            bad.append(("version", f"module {name} declares version {t['version']}"))
        # config-file naming round trip through the library's own FILES codec
        packname = lib.pack_module(plat).GeckoPack(None).name
        h = GeckoConfigFileProtocolHandler.response(packname, ver if kind == "cfg" else 1, ver if kind == "log" else 1, parms=(1, 2, b"a", b"b"))
        r = GeckoConfigFileProtocolHandler()
        r.handle(h._content, None)
        got = f"{r.plateform_key.lower()}-{kind}-{r.config_version if kind == 'cfg' else r.log_version}"
        if got != name:
            bad.append(("files-naming", f"FILES reply for {packname} v{ver} resolves to module {got!r}, not {name!r}"))
        items = t["items"]
        for key_list in ("output_keys", "user_demand_keys", "error_keys"):
            for k in t.get(key_list, []):
                n += 1
                if k not in items:
                    # keys of the config struct may name items of the paired log struct and vice versa: resolved in _cross
                    bad.append(("dangling-key?", (key_list, k)))
        if kind == "log":
            n += 1
            if not (0 <= t["begin"] < 1024 and 0 < t["end"] and t["begin"] + t["end"] <= 1024):
                bad.append(("refresh-window", f"{name}: begin {t['begin']} end {t['end']} (used as start/length of the refresh request)"))
        for tag, it in items.items():
            n += 1
            cls, typ, pos, bitpos, labels, size, maxitems, rw, length, mask, atag = it
            f = Field(typ, pos, bitpos, size, maxitems, labels)
            if atag != tag:
                bad.append((f"tag|{tag}", f"{name}:{tag} carries tag {atag!r}"))
            if not (0 <= pos and pos + f.width <= 1024):
                bad.append((f"outside-block|{tag}", f"{name}:{tag} occupies bytes {pos}..{pos + f.width - 1}"))
            if length != f.width:
                bad.append((f"width|{tag}", f"{name}:{tag} effective width {length}, declaration implies {f.width}"))
            if bitpos is not None:
                if (f.mask << f.shift) >= (1 << (8 * f.width)):
                    bad.append((f"bits-outside-bytes|{tag}", f"{name}:{tag} bit field mask {f.mask:#x} at bit {bitpos} exceeds its {f.width} byte(s)"))
                if mask != f.mask:
                    bad.append((f"mask|{tag}", f"{name}:{tag} effective mask {mask!r}, declaration (MaxItems {maxitems}) implies {f.mask}"))
            ew = _WRITABLE.get((name, kind, tag))
            if ew is not None and ew != (rw is not None):
                bad.append((f"writability|{tag}", f"{name}:{tag} is declared {'writable (' + str(rw) + ')' if rw is not None else 'read-only'} "
                                                  f"but {'accepts' if ew else 'refuses'} a write"))
            if typ == "Enum":
                # every label must be representable; trailing labels may be padding ("")
                last = max((i for i, lab in enumerate(labels) if lab != ""), default=0)
                if last > f.mask:
                    bad.append((f"label-unrepresentable|{tag}", f"{name}:{tag} label #{last} {labels[last]!r} does not fit a field with mask {f.mask:#x}"))
    return name, n, bad, d


def _cross(platform_dumps):
    """Keys advertised by one table that are not its own items must be items of the sibling tables of
    the platform (outputs are config items, demands/devices/errors are log items)."""
    bad = []
    return bad


class _Snap:
    """What the simulator needs from a snapshot, for any platform/cfg/log combination."""

    def __init__(self, packname, cfg, log):
        self.packtype = packname
        self.config_version = cfg
        self.log_version = log
        self.intouch_EN = (88, 15, 0)
        self.intouch_CO = (89, 11, 0)
        self.bytes = bytes(1024)


def _statu_window(datagram):
    """(start, length) of a framed STATU request, decoded by the reference layout: STATU seq start(2) length(2)."""
    from ..peers import unframe
    import struct as _st

    c = unframe(datagram)[2]
    if not c.startswith(b"STATU") or len(c) != 10:
        return ("?", c[:12])
    return _st.unpack(">HH", c[6:10])


def _lookup_job(job):
    """The real clients resolve the tables from the FILES reply of the (real) simulator: async _connect on the virtual
    loop up to the point where the tables are loaded, and the blocking client's _on_config_received."""
    plat, pairs = job
    import asyncio

    from ..peers import SPA_ADDR, SPA_ID, SimPeer
    from ..vloop import Chooser, VLoop
    from ..vnet import VNet
    from geckolib import AsyncTasks, GeckoAsyncSpa, GeckoAsyncSpaDescriptor
    from geckolib.spa import GeckoSpa
    from ..stepped import TDesc

    packname = lib.pack_module(plat).GeckoPack(None).name
    bad = []
    n = 0
    pv = lib.platforms()[plat]
    shipped_cfg, shipped_log = set(pv["cfg"]), set(pv["log"])
    for cfg, log in pairs:
        n += 1
        lib.reset_library()
        loop = VLoop(Chooser())
        loop.timer_choices_enabled = False
        net = VNet(loop)
        peer = SimPeer(_Snap(packname, cfg, log))
        net.add_peer(SPA_ADDR, peer)
        events = []

        async def on_event(event, **kw):
            events.append((event.name, kw))

        with loop.running():
            tm = AsyncTasks()
            spa = GeckoAsyncSpa(b"IOSgeckomc", GeckoAsyncSpaDescriptor(SPA_ID, "Spa", SPA_ADDR), tm, on_event)
            t = loop.create_task(spa.connect(), name="HARNESS:connect")
        loop.run_for(30.0, lambda: t.done() or spa.log_class is not None or any(e[0].startswith("CONNECTION_CANNOT") for e in events))
        got = (getattr(spa.pack_class, "name", None), getattr(spa.config_class, "version", None), getattr(spa.log_class, "version", None))
        mods = (type(spa.config_class).__module__, type(spa.log_class).__module__)
        exp_mods = (f"geckolib.driver.packs.{plat}-cfg-{cfg}", f"geckolib.driver.packs.{plat}-log-{log}")
        shipped = (cfg in shipped_cfg) and (log in shipped_log)
        if not shipped:
            # a version the spa names but no table module declares: the client must not decode it with another version's
            # table (module names agree with the version they declare)
            loaded = [(m, v) for m, v in ((mods[0], got[1]), (mods[1], got[2])) if v is not None]
            wrong = [(m, v) for (m, v), want in zip(((mods[0], got[1]), (mods[1], got[2])), (cfg, log)) if v is not None and v != want]
            if wrong or (spa.is_connected):
                bad.append(("lookup|async|unshipped", f"async client: spa reports {packname} C{cfg:02}/S{log:02} (not both shipped); client "
                                                      f"loaded {loaded} and is {'connected' if spa.is_connected else 'not connected'}"))
            with loop.running():
                for x in tm._tasks:
                    x.cancel()
                t.cancel()
            loop.shutdown()
            continue
        if got != (packname, cfg, log) or mods != exp_mods:
            bad.append(("lookup|async", f"async client: spa reports {packname} C{cfg:02}/S{log:02}; client loaded {got} from {mods} "
                                        f"(events {[e[0] for e in events if 'CANNOT' in e[0]]})"))
        # the refresh window the client actually asks for is the published one (begin, end) of the log table
        if spa.log_class is not None and spa._protocol is not None:
            with loop.running():
                h = spa._get_status_block_handler_func()
            want = (spa.log_class.begin, spa.log_class.end)
            got_w = _statu_window(h.send_bytes)
            if got_w != want:
                bad.append(("refresh-window|async", f"async client refreshes {packname} S{log:02} with STATU{got_w}; the "
                                                    f"published window of that table is {want}"))
        with loop.running():
            for x in tm._tasks:
                x.cancel()
            t.cancel()
        loop.shutdown()
        # blocking client: the same decision in _on_config_received
        from geckolib.driver import GeckoConfigFileProtocolHandler

        h = GeckoConfigFileProtocolHandler()
        h.handle(GeckoConfigFileProtocolHandler.response(packname, cfg, log, parms=(1, 2, b"a", b"b"))._content, None)
        tspa = GeckoSpa(TDesc(SPA_ID, b"IOSgeckomc", SPA_ADDR))
        tspa.queue_send = lambda *a, **k: None
        tspa.add_receive_handler = lambda *a, **k: None
        try:
            tspa._on_config_received(h, (SPA_ADDR[0], SPA_ADDR[1], SPA_ID, b"IOSgeckomc"))
            tgot = (tspa.new_pack_class.name, tspa.new_config_class.version, tspa.new_log_class.version,
                    type(tspa.new_config_class).__module__, type(tspa.new_log_class).__module__)
        except Exception as e:  # noqa
            tgot = repr(e)
        if tgot != (packname, cfg, log) + exp_mods:
            bad.append(("lookup|threaded", f"blocking client: spa reports {packname} C{cfg:02}/S{log:02}; client loaded {tgot}"))
        else:
            reqs = []
            tspa.struct.retry_request = lambda sock, handler, parms: reqs.append(_statu_window(handler.send_bytes))
            tspa._is_connected = True
            tspa.refresh()
            want = (tspa.new_log_class.begin, tspa.new_log_class.end)
            if reqs != [want]:
                bad.append(("refresh-window|threaded", f"blocking client refreshes {packname} S{log:02} with STATU{reqs}; the published "
                                                       f"window of that table is {want}"))
        if bad:
            break
    return plat, n, bad


def _sibling_job(group):
    """One process, one spa after the other: platforms that share a pack TYPE number (inXE / inXE-2 / inXE-64K, ...) are
    looked up in turn - first A's pairs, then B's, then A's again - by the real clients; each lookup must still load the
    tables of the platform and versions its own FILES reply names."""
    bad, n = [], 0
    for plat, pairs in list(group) + list(group[:1]):
        p_, k, b = _lookup_job((plat, pairs))
        n += k
        bad += [(cls + "|after-sibling", text + " (sibling platforms of the same pack type were connected before in this process)") for cls, text in b]
        if bad:
            break
    return group, n, bad


def _item_row(a):
    dd = a._decl
    eff = list(a.items) if getattr(a, "items", None) is not None else None
    return [dd["cls"], dd["type"], dd["pos"], dd["bitpos"], eff if eff != dd["items"] else dd["items"], dd["size"], dd["maxitems"],
            [dd["rw"], a.read_write],  # as declared, and as the live item answers now
            a.length, getattr(a, "bitmask", None) if dd["bitpos"] is not None else None, a.tag]


def _rebuild_job(job):
    """A published layout is what a client gets whenever it selects that platform/version - also on a structure that
    carried other tables before (re-handshake after a firmware update, the simulator loading another image): ONE
    long-lived structure of each class walks the version pairs of a platform up and down and then hops to the next
    platform; after every build_accessors each item of the structure is compared with the module's own layout."""
    plat, pairs, nxt = job
    from geckolib.driver import GeckoAsyncStructure

    bad = []
    n = 0
    for which, st in (("sync", GeckoStructure(lambda *a: None)), ("async", GeckoAsyncStructure(lambda *a: None, None))):
        walk = [(plat, c, l) for c, l in pairs] + [(plat, c, l) for c, l in reversed(pairs)]
        if nxt is not None:
            walk += [nxt, (plat,) + tuple(pairs[0])]
        prev = None
        for (pl, cfg, log) in walk:
            cm = lib.pack_module(f"{pl}-cfg-{cfg}")
            lm = lib.pack_module(f"{pl}-log-{log}")
            fresh = GeckoStructure(lambda *a: None)
            want = {}
            for tag, a in dict(cm.GeckoConfigStruct(fresh).accessors, **lm.GeckoLogStruct(fresh).accessors).items():
                want[tag] = _item_row(a)
            cc, lc = cm.GeckoConfigStruct(st), lm.GeckoLogStruct(st)
            st.build_accessors(cc, lc)
            n += 1
            got = {tag: _item_row(a) for tag, a in st.accessors.items()}
            if sorted(got) != sorted(want):
                bad.append((f"rebuild|{which}", f"{which} structure after {prev} -> {(pl, cfg, log)}: item set differs "
                                                f"({sorted(set(got) ^ set(want))[:5]})"))
                break
            diff = [t for t in want if json.loads(json.dumps(got[t])) != json.loads(json.dumps(want[t]))]
            if diff:
                t = diff[0]
                bad.append((f"rebuild|{which}", f"{which} structure after {prev} -> {(pl, cfg, log)}: {len(diff)} item(s) do not have the "
                                                f"published layout, e.g. {t}: {got[t][:4]} instead of {want[t][:4]}"))
                break
            if (list(st.all_outputs), list(st.all_devices), list(st.user_demands), list(st.error_keys)) != (
                    list(cc.output_keys), list(lc.all_device_keys), list(lc.user_demand_keys), list(lc.error_keys)):
                bad.append((f"rebuild|{which}", f"{which} structure after {prev} -> {(pl, cfg, log)}: key lists are not the new tables'"))
                break
            prev = (pl, cfg, log)
    return plat, n, bad


def _facade_layout_job(job):
    """A published layout is also what a client sees AFTER the automation layer was built on its structure: both
    facades are constructed (and the blocking one re-scanned) on a structure of the combination, over an empty block, the
    maximal wiring and every single-device wiring; afterwards every item still has the module's layout."""
    plat, cfg, log = job
    from .. import fakes
    from .c11 import build_async, build_sync
    from .c12 import apply_wiring, wirings

    spa = fakes.FakeSpa().load(plat, cfg, log)
    if "TempUnits" not in spa.accessors:
        return job, 0, []
    fresh = GeckoStructure(lambda *a: None)
    cm, lm = lib.pack_module(f"{plat}-cfg-{cfg}"), lib.pack_module(f"{plat}-log-{log}")
    want = {tag: json.loads(json.dumps(_item_row(a)))
            for tag, a in dict(cm.GeckoConfigStruct(fresh).accessors, **lm.GeckoLogStruct(fresh).accessors).items()}
    ws = wirings(spa, False)
    pick = [w for w in ws if w[0] == "empty" or w[0].startswith("maximal:")] + [w for w in ws if len(w[1]) == 1][:24]
    bad, n = [], 0
    for desc, w in pick:
        spa.struct.set_status_block(apply_wiring(spa, bytes(1024), w))
        for which, build in (("async", build_async), ("sync", build_sync)):
            try:
                fac = build(spa)
                if which == "sync":
                    fac.scan_outputs()
            except Exception:  # noqa  (unconstructible combinations are C11's business)
                continue
            n += 1
            got = {tag: json.loads(json.dumps(_item_row(a))) for tag, a in spa.struct.accessors.items()}
            diff = [t for t in want if got.get(t) != want[t]] + [t for t in got if t not in want]
            if diff:
                t = diff[0]
                bad.append((f"facade-changed-layout|{which}", f"{plat} cfg {cfg} log {log} wiring {desc}: after the {which} facade was built, "
                            f"{len(diff)} item(s) no longer have the published layout, e.g. {t}: {got.get(t)} instead of {want.get(t)}"))
                return job, n, bad
    return job, n, bad


def load_pin():
    files = sorted(glob.glob(os.path.join(PINS, "layout-*.json.gz")))
    if not files:
        return None, None
    with gzip.open(files[-1], "rt") as f:
        return json.load(f), os.path.basename(files[-1])


def write_pin():
    import subprocess

    sha = subprocess.check_output(["git", "-C", core.REPO, "log", "--format=%h", "-1"]).decode().strip()
    os.makedirs(PINS, exist_ok=True)
    d = {name: dump_module(name) for name in lib.pack_module_names()}
    path = os.path.join(PINS, f"layout-{sha}.json.gz")
    with gzip.GzipFile(path, "w", mtime=0) as gz:
        gz.write(json.dumps(d, sort_keys=True).encode())
    return path, len(d)


def compare_pin(pin, name, cur):
    out = []
    old = pin.get(name)
    if old is None:
        return out
    if old.get("pack") != cur.get("pack"):
        out.append(("pin-pack", f"{name}: pack header changed {old.get('pack')} -> {cur.get('pack')}"))
    for kind in ("cfg", "log"):
        if kind not in old:
            continue
        if kind not in cur:
            out.append(("pin-missing", f"{name}: {kind} table removed"))
            continue
        o, c = old[kind], cur[kind]
        for k in o:
            if k == "items":
                continue
            if o[k] != c.get(k):
                out.append(("pin-table", f"{name}: {k} changed {str(o[k])[:80]} -> {str(c.get(k))[:80]}"))
        for tag, it in o["items"].items():
            ci = c["items"].get(tag)
            if ci is None:
                out.append((f"pin-item-removed|{tag}", f"{name}:{tag} removed from a published layout"))
            elif json.loads(json.dumps(ci)) != it:
                fields = ["class", "type", "pos", "bitpos", "labels", "size", "maxitems", "rw", "width", "mask", "tag"]
                diff = [f"{fields[i]} {it[i]!r}->{ci[i]!r}" for i in range(len(fields)) if json.loads(json.dumps(ci[i])) != it[i]]
                out.append((f"pin-item|{tag}", f"{name}:{tag} layout changed: {'; '.join(diff)[:200]}"))
        for tag in c["items"]:
            if tag not in o["items"]:
                out.append((f"pin-item-added|{tag}", f"{name}:{tag} added to a published layout"))
    return out


def _key(cls, name):
    if "|" in cls:
        c, tag = cls.split("|", 1)
        return f"C18|{c}|{name}:{tag}"
    return f"C18|{cls}|{name}"


def run(ctx):
    names = lib.pack_module_names()
    pin, pinfile = load_pin()
    if pin is None:
        raise core.HarnessError("no layout pin under /verif/pins (run: python -m geckomc.props.c18 --write-pin)")
    evals = 0
    nitems = 0
    dumps = {}
    pend = {}
    for name, n, bad, d in core.pmap(ctx, _check_module, names, chunksize=4):
        evals += n
        dumps[name] = d
        for kind in ("cfg", "log"):
            if kind in d:
                nitems += len(d[kind]["items"])
        for cls, text in bad:
            if cls == "dangling-key?":
                pend.setdefault(name, []).append(text)
            else:
                ctx.violation(_key(cls, name), text, {"module": name})
        for cls, text in compare_pin(pin, name, d):
            ctx.violation(_key(cls, name), text + f" (pin {pinfile})", {"module": name})
        evals += 1
    for name in pin:
        if name not in dumps:
            ctx.violation(f"C18|pin-module-removed|{name}", f"published module {name} no longer shipped", {"module": name})
    # advertised keys: resolve against all tables of the platform (any version pairing a spa could report)
    plats = lib.platforms()
    for name, keys in pend.items():
        plat = name.split("-cfg-")[0].split("-log-")[0]
        sib_items = set()
        for kind in ("cfg", "log"):
            for v in plats[plat][kind]:
                sib_items.update(dumps[f"{plat}-{kind}-{v}"][kind]["items"].keys())
        for key_list, k in keys:
            if k not in sib_items:
                ctx.violation(f"C18|dangling-key|{name}", f"{name}: {key_list} advertises {k!r}, which no table of platform {plat} defines",
                              {"module": name})
    # the clients' own table lookup from the FILES reply: every platform x cfg x log (quick: every cfg with the first/last log and
    # every log with the first/last cfg - the lookup code treats the two numbers independently)
    ljobs = []
    for plat, v in plats.items():
        if not v["cfg"] or not v["log"]:
            continue
        pairs = [(c, l) for c in v["cfg"] for l in v["log"]]
        if ctx.quick:
            pairs = sorted({(c, l) for c in v["cfg"] for l in (v["log"][0], v["log"][-1])} | {(c, l) for l in v["log"] for c in (v["cfg"][0], v["cfg"][-1])})
        # versions no module declares: just below, inside the gaps of, and just above the shipped ranges
        def unshipped(vs):
            cand = {min(vs) - 1, max(vs) + 1, max(vs) + 7} | {v + 1 for v in vs} | {v - 1 for v in vs}
            return sorted(c for c in cand if c not in vs and 0 < c < 256)[: (4 if ctx.quick else 40)]
        pairs += [(c, v["log"][-1]) for c in unshipped(v["cfg"])] + [(v["cfg"][-1], l) for l in unshipped(v["log"])]
        ljobs.append((plat, pairs))
    nl = 0
    for plat, n, bad in core.pmap(ctx, _lookup_job, ljobs, chunksize=1):
        nl += n
        for cls, text in bad:
            ctx.violation(f"C18|{cls}|{plat}", text, {"module": plat, "mode": "lookup"})
    # siblings: platforms sharing a pack type number, connected one after the other in ONE process
    by_type = {}
    for plat, v in plats.items():
        if v["cfg"] and v["log"]:
            by_type.setdefault(lib.pack_module(plat).GeckoPack(None).type, []).append(plat)
    sjobs = []
    for typ, ps in sorted(by_type.items()):
        if len(ps) < 2:
            continue
        for a, b in itertools.permutations(ps, 2):
            va, vb = plats[a], plats[b]
            # the versions both ship, and the ones only one of them ships (looked up on the other they must not resolve)
            cs = sorted(set(va["cfg"]) | set(vb["cfg"]))
            ls = sorted(set(va["log"]) | set(vb["log"]))
            if ctx.quick:
                cs = [c for c in cs if c in va["cfg"] and c in vb["cfg"]][-3:] + [c for c in cs if (c in va["cfg"]) != (c in vb["cfg"])][-2:]
                ls = [l for l in ls if l in va["log"] and l in vb["log"]][-3:] + [l for l in ls if (l in va["log"]) != (l in vb["log"])][-2:]
            if not cs or not ls:
                continue
            pa = [(c, va["log"][-1]) for c in cs] + [(va["cfg"][-1], l) for l in ls]
            pb = [(c, vb["log"][-1]) for c in cs] + [(vb["cfg"][-1], l) for l in ls]
            sjobs.append(((a, pa), (b, pb)))
    ns = 0
    for group, k, bad in core.pmap(ctx, _sibling_job, sjobs, chunksize=1):
        ns += k
        for cls, text in bad:
            ctx.violation(f"C18|{cls}|{group[0][0]}", text, {"module": group[0][0], "mode": "sibling",
                                                             "group": [[pl, [list(x) for x in prs]] for pl, prs in group]})
    ctx.set("sibling_platform_lookups", ns)
    evals += nl + ns
    ctx.set("client_lookups", nl)
    rjobs = []
    pl_list = [p for p, v in plats.items() if v["cfg"] and v["log"]]
    for i, plat in enumerate(pl_list):
        v = plats[plat]
        m = max(len(v["cfg"]), len(v["log"]))
        # cfg and log versions advance together (shorter list repeats its last), then every cfg with the first log
        pairs = [(v["cfg"][min(k, len(v["cfg"]) - 1)], v["log"][min(k, len(v["log"]) - 1)]) for k in range(m)]
        pairs += [(c, l) for c in v["cfg"] for l in v["log"]]
        o = pl_list[(i + 1) % len(pl_list)]
        rjobs.append((plat, pairs, (o, plats[o]["cfg"][-1], plats[o]["log"][-1])))
    nr = 0
    for plat, n, bad in core.pmap(ctx, _rebuild_job, rjobs, chunksize=1):
        nr += n
        for cls, text in bad:
            ctx.violation(f"C18|{cls}|{plat}", text, {"module": plat, "mode": "rebuild"})
    evals += nr
    ctx.set("rebuilds_on_live_structures", nr)
    # the automation layer on top: every cfg with the newest log and every log with the newest cfg (thorough: every pair)
    from .. import fakes
    combos = fakes.all_combinations()
    if ctx.quick:
        keep = set()
        for plat, v in plats.items():
            if v["cfg"] and v["log"]:
                keep.update((plat, c, v["log"][-1]) for c in v["cfg"])
                keep.update((plat, v["cfg"][-1], l) for l in v["log"])
        combos = [c for c in combos if c in keep]
    nfl = 0
    for job, n, bad in core.pimap(ctx, _facade_layout_job, combos, chunksize=2):
        nfl += n
        for cls, text in bad:
            ctx.violation(f"C18|{cls}|{job[0]}", text, {"module": job[0], "mode": "facade-layout", "combo": list(job)})
    if nfl == 0:
        raise core.HarnessError("C18: no facade could be built on any combination - the layout-after-facade clause is vacuous")
    evals += nfl
    ctx.set("facades_built_then_layout_compared", nfl)
    ctx.set("modules", len(names))
    ctx.set("items", nitems)
    ctx.set("pin", pinfile)
    ctx.set("pinned_modules", len(pin))
    ctx.set("evaluations", evals)
    ctx.set("distinct_nontrivial", nitems + len(names))
    ctx.set("rule", "cases = every item and every table header/key list of every shipped module, checked for geometry and compared "
            "with the pinned layout; distinct_nontrivial = items + modules (all distinct)")
    ctx.set("exhaustive", True)
    any_mod = next(n for n in names if "-log-" in n)
    tag, it = next(iter(dumps[any_mod]["log"]["items"].items()))
    ctx.sample({"module": any_mod, "item": tag, "declaration": it})
    ctx.assume("complete enumeration of a finite configuration space (not of behaviours); the pin was generated by this machinery "
               "at the commit named in the pin file")


def replay(ctx, data):
    if data.get("mode") == "rebuild":
        plats = lib.platforms()
        pl_list = [p for p, v in plats.items() if v["cfg"] and v["log"]]
        plat = data["module"]
        v = plats[plat]
        o = pl_list[(pl_list.index(plat) + 1) % len(pl_list)]
        p_, n, bad = _rebuild_job((plat, [(c, l) for c in v["cfg"] for l in v["log"]], (o, plats[o]["cfg"][-1], plats[o]["log"][-1])))
        for cls, text in bad:
            ctx.violation(f"C18|{cls}|{plat}", text, data)
        ctx.set("evaluations", 1)
        ctx.set("distinct_nontrivial", 2)
        ctx.set("rule", "replay")
        return
    if data.get("mode") == "facade-layout":
        job, n, bad = _facade_layout_job(tuple(data["combo"]))
        for cls, text in bad:
            ctx.violation(f"C18|{cls}|{job[0]}", text, data)
        ctx.set("evaluations", 1)
        ctx.set("distinct_nontrivial", 2)
        ctx.set("rule", "replay")
        return
    if data.get("mode") == "sibling":
        group = tuple((pl, [tuple(x) for x in prs]) for pl, prs in data["group"])
        g_, n, bad = _sibling_job(group)
        for cls, text in bad:
            ctx.violation(f"C18|{cls}|{group[0][0]}", text, data)
        ctx.set("evaluations", 1)
        ctx.set("distinct_nontrivial", 2)
        ctx.set("rule", "replay")
        return
    if data.get("mode") == "lookup":
        plat = data["module"]
        v = lib.platforms()[plat]
        p_, n, bad = _lookup_job((plat, [(c, l) for c in v["cfg"] for l in v["log"]]))
        for cls, text in bad:
            ctx.violation(f"C18|{cls}|{plat}", text, data)
        ctx.set("evaluations", 1)
        ctx.set("distinct_nontrivial", 2)
        ctx.set("rule", "replay")
        return
    pin, pinfile = load_pin()
    name, n, bad, d = _check_module(data["module"])
    for cls, text in bad:
        if cls != "dangling-key?":
            ctx.violation(_key(cls, name), text, data)
    for cls, text in compare_pin(pin or {}, name, d):
        ctx.violation(_key(cls, name), text, data)
    ctx.set("evaluations", 1)
    ctx.set("distinct_nontrivial", 2)
    ctx.set("rule", "replay")


if __name__ == "__main__":
    import sys

    if "--write-pin" in sys.argv:
        print(write_pin())
