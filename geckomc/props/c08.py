"""C08 - lifecycle follows the state table; facade-ready/teardown are well-bracketed.

Explicit-state BFS (E4) over the REAL GeckoAsyncSpaMan (real _sequence_pump, _handle_event,
async_reset, async_set_spa_info, async_locate_spas/async_connect(_to_spa), status sensor, real
GeckoAsyncSpa.disconnect) with the environment stubbed the way tests/test_spaman.py does, but
outcome-parameterised and step-wise:
  * GeckoAsyncLocator.discover  blocks until the explorer answers found | none | raise;
  * GeckoAsyncSpa._connect      blocks before each handshake step and the explorer answers
                                ok | fail (retry exhausted) | nopack/noconfig/nolog | raise, the stub
                                emitting the real event sequence through the real callback;
  * the facade is a light stand-in that fails exactly when the real one must (spa missing or
    not connected).
Events: the stub answers above (pump progress), spa-originated events raised through the real
callback from their own task, user async_reset / async_set_spa_info, and SUSPEND/RELEASE of the
client's handle_event (so a second event is delivered from another task while the first
handler is suspended).  A state is the event history reaching it; build(hist) replays it on
fresh real objects; canon() projects the property-relevant fields; BFS runs to closure.

Oracle: lock-step with the lifecycle table (refmodel below) + invariants at every delivery.
"""
from __future__ import annotations

import asyncio
import types
from collections import deque

from .. import core, lib
from ..vloop import Chooser, VLoop
from ..vnet import VNet

LEVEL = "model_checking"

import geckolib.async_spa_manager as mgr  # noqa: E402
from geckolib import GeckoAsyncSpaDescriptor, GeckoSpaEvent as E, GeckoSpaState as S  # noqa: E402
from geckolib.async_locator import GeckoAsyncLocator  # noqa: E402
from geckolib.async_spa import GeckoAsyncSpa  # noqa: E402

DESC = GeckoAsyncSpaDescriptor(b"SPA01:02:03:04:05:06", "Spa", ("10.0.0.9", 10022))
CUR = None  # the world the stubs talk to (one per process at a time)

STEP_EVENT = [E.CONNECTION_GOT_FIRMWARE_VERSION, E.CONNECTION_GOT_CHANNEL, E.CONNECTION_GOT_CONFIG_FILES,
              E.CONNECTION_INITIAL_DATA_BLOCK_REQUEST, E.CONNECTION_SPA_COMPLETE]
STEP_OUTCOMES = [("ok", "fail", "raise"), ("ok", "fail"), ("ok", "fail"), ("ok", "nopack", "noconfig", "nolog"),
                 ("ok", "fail")]
SPA_EVENTS = ["RUNNING_PING_RECEIVED", "RUNNING_PING_MISSED", "RUNNING_PING_NO_RESPONSE", "ERROR_RF_ERROR",
              "ERROR_TOO_MANY_RF_ERRORS", "ERROR_PROTOCOL_RETRY_COUNT_EXCEEDED"]
CONNECTED_ONLY = ["RUNNING_SPA_PACK_REFRESHED"]


# ---- stubs installed on the library classes (from outside) ------------------------------------
async def _stub_discover(self):
    w = CUR
    self._spas = []
    out = await w.ask("discover")
    if out == "found":
        self._spas.append(DESC)
        await self._event_handler(E.LOCATING_DISCOVERED_SPA, spa_descriptor=DESC)
    elif out == "raise":
        raise OSError("network unreachable (injected)")


async def _stub_connect(self):
    w = CUR
    for step in range(5):
        out = await w.ask(f"connect@{step}")
        if out == "fail":
            await self._event_handler(E.CONNECTION_PROTOCOL_RETRY_COUNT_EXCEEDED)
            return
        if out == "raise":
            raise RuntimeError("connect raised (injected)")
        if out == "nopack":
            await self._event_handler(E.CONNECTION_CANNOT_FIND_SPA_PACK, pack_module_name="x")
            return
        if out == "noconfig":
            await self._event_handler(E.CONNECTION_CANNOT_FIND_CONFIG_VERSION, config_version=1)
            return
        if out == "nolog":
            await self._event_handler(E.CONNECTION_CANNOT_FIND_LOG_VERSION, log_version=1)
            return
        if step == 4:
            self._is_connected = True
        await self._event_handler(STEP_EVENT[step])


class LightFacade:
    """Fails exactly when the real facade constructor must: no spa, or a spa whose structure
    has been reset (accessors empty -> KeyError 'TempUnits' in the real GeckoWaterHeater)."""

    def __init__(self, spa, taskman, **kw):
        if spa is None:
            raise AttributeError("'NoneType' object has no attribute 'struct'")
        if not spa.is_connected:
            raise KeyError("TempUnits")
        self._spa = spa
        self.disconnected = False
        self._water_care = types.SimpleNamespace(change_watercare_mode=lambda m: None)

    async def disconnect(self):
        self.disconnected = True


def install_stubs():
    GeckoAsyncLocator.discover = _stub_discover
    GeckoAsyncSpa._connect = _stub_connect
    mgr.GeckoAsyncFacade = LightFacade


# ---- reference model: the lifecycle table ----------------------------------------------------
ERRS = (S.ERROR_PING_MISSED, S.ERROR_RF_FAULT, S.ERROR_NEEDS_ATTENTION)


def ref_step(state, event, has_facade):
    """-> (state', nested CLIENT event or None, resets?)"""
    if event == E.LOCATING_STARTED:
        return S.LOCATING_SPAS, None, False
    if event == E.LOCATING_FINISHED:
        return S.LOCATED_SPAS, None, False
    if event == E.SPA_NOT_FOUND:
        return S.ERROR_SPA_NOT_FOUND, None, False
    if event == E.CONNECTION_STARTED:
        return S.CONNECTING, E.CLIENT_HAS_RECONNECT_BUTTON, False
    if event == E.CONNECTION_GOT_CHANNEL:
        return state, E.CLIENT_HAS_PING_SENSOR, False
    if event == E.CONNECTION_SPA_COMPLETE:
        return S.SPA_READY, None, False
    if event == E.CONNECTION_FINISHED:
        if has_facade:
            return S.CONNECTED, E.CLIENT_FACADE_IS_READY, False
        return state, None, False
    if event == E.RUNNING_PING_NO_RESPONSE and state == S.CONNECTED:
        return S.ERROR_PING_MISSED, E.CLIENT_FACADE_TEARDOWN, False
    if event == E.ERROR_RF_ERROR and state == S.CONNECTED:
        return S.ERROR_RF_FAULT, E.CLIENT_FACADE_TEARDOWN, False
    if event == E.RUNNING_SPA_DISCONNECTED and state == S.CONNECTED:
        return S.IDLE, E.CLIENT_FACADE_TEARDOWN, False
    if event in (E.CONNECTION_PROTOCOL_RETRY_COUNT_EXCEEDED, E.ERROR_PROTOCOL_RETRY_COUNT_EXCEEDED,
                 E.ERROR_TOO_MANY_RF_ERRORS):
        return S.ERROR_NEEDS_ATTENTION, None, False
    if event == E.RUNNING_PING_RECEIVED and state in ERRS:
        return S.IDLE, None, True
    return state, None, False


# ---- the world -------------------------------------------------------------------------------
class Man(mgr.GeckoAsyncSpaMan):
    def __init__(self, world):
        super().__init__("geckomc", spa_identifier="SPA01:02:03:04:05:06", spa_address="10.0.0.9", spa_name="Spa")
        self.w = world

    async def handle_event(self, event, **kwargs):
        await self.w.delivered(event, kwargs)


class World:
    def __init__(self):
        global CUR
        lib.reset_library()
        CUR = self
        self.loop = VLoop(Chooser())
        self.loop.timer_choices_enabled = False
        VNet(self.loop)
        self.pending = {}  # question -> future   (pump progress)
        self.log = []  # deliveries: (event, state, has_facade, text)
        self.viol = None
        self.arm = False  # next delivery suspends
        self.gate = None  # future of the suspended delivery
        self.gate_event = None
        self.gate_task = None
        self.entries = 0
        self.ready = 0
        self.teardown = 0
        self.ann = "none"
        self.prev_state = S.IDLE
        self.brackets = {"LOCATING": 0, "CONNECTION": 0}
        self.tasks = []
        self.reset_checks = []
        self.reset_due = False  # a ping arrived in an error state: the table demands a reset
        with self.loop.running():
            self.man = Man(self)
            orig = self.man._handle_event

            async def entry(event, **kw):
                self.entries += 1
                return await orig(event, **kw)

            self.man._handle_event = entry
            t = self.loop.create_task(self.man.__aenter__(), name="HARNESS:enter")
        self.settle()
        if not t.done():
            raise core.HarnessError("manager did not enter")

    # -- stub interface
    def ask(self, q):
        fut = self.loop.create_future()
        self.pending[q] = fut
        return fut

    def fail(self, cls, text):
        if self.viol is None:
            self.viol = (cls, text)

    # -- delivery monitor (runs inside the real _handle_event -> handle_event call)
    async def delivered(self, event, kwargs):
        m = self.man
        st = m.spa_state
        fac = m._facade
        text = m._status_sensor.state if m._status_sensor else None
        self.log.append((event.name, st.name, fac is not None, text))
        # invariants at delivery
        if st == S.CONNECTED:
            if fac is None:
                self.fail("connected-without-facade", f"{event.name} delivered in CONNECTED with no facade")
            elif m._spa is None or not m._spa.is_connected:
                self.fail("connected-without-spa", f"{event.name} delivered in CONNECTED with spa "
                          f"{'missing' if m._spa is None else 'not connected'}")
        if text is not None and text != S.to_string(st):
            self.fail("status-text", f"{event.name}: status sensor says {text!r} in state {st.name}")
        if event == E.CLIENT_FACADE_IS_READY:
            self.ready += 1
            if st != S.CONNECTED or self.prev_state == S.CONNECTED:
                self.fail("ready-not-at-entry", f"facade-ready announced in {st.name} (previous delivery saw {self.prev_state.name})")
        elif st == S.CONNECTED and self.prev_state != S.CONNECTED:
            self.fail("connected-without-ready", f"CONNECTED first seen at {event.name} without a facade-ready announcement")
        if event == E.CLIENT_FACADE_IS_READY:
            self.ann = "ready"
        if event == E.CLIENT_FACADE_TEARDOWN:
            self.teardown += 1
            # at most one teardown per facade-ready (per facade, not cumulatively)
            if self.ann != "ready":
                self.fail("teardown-without-ready", f"facade-teardown announced with the last announcement being {self.ann!r} "
                          f"(teardown #{self.teardown}, {self.ready} ready)")
            self.ann = "torn"
            if fac is None:
                self.fail("teardown-without-facade", "facade-teardown announced while the manager holds no facade")
        for k in ("LOCATING", "CONNECTION"):
            if event.name == f"{k}_STARTED":
                self.brackets[k] += 1
            elif event.name == f"{k}_FINISHED":
                self.brackets[k] -= 1
                if self.brackets[k] < 0:
                    self.fail("bracket", f"{k}_FINISHED without a matching start")
        self.prev_state = st
        if self.arm and self.gate is None:
            self.arm = False
            self.gate = self.loop.create_future()
            self.gate_event = event.name
            import asyncio as _a
            self.gate_task = _a.current_task().get_name()
            try:
                await self.gate
            finally:  # also when the suspended task is cancelled (spa.disconnect cancels the "SPA" tasks)
                self.gate = None
                self.gate_event = None
                self.gate_task = None

    def settle(self):
        self.loop.run_for(0.35)

    # -- events ----------------------------------------------------------------------------
    def enabled(self):
        ev = []
        for q in sorted(self.pending):
            if q == "discover":
                ev += ["discover:found", "discover:none", "discover:raise"]
            else:
                step = int(q.split("@")[1])
                ev += [f"{q}:{o}" for o in STEP_OUTCOMES[step]]
        m = self.man
        if m._spa is not None:
            ev += ["spa:" + n for n in SPA_EVENTS]
            if m._spa.is_connected and m._facade is not None and m._radio_sensor is not None:
                ev += ["spa:" + n for n in CONNECTED_ONLY]
        ev += ["user:reset", "user:set_info"]
        if self.gate is None and not self.arm:
            ev.append("suspend-next")
        if self.gate is not None:
            ev.append("release")
            # the phase raises: the client's handler fails while the pump is inside a started locate/connect phase
            if self.gate_task == "SPAMAN:Sequence Pump" and (self.brackets["LOCATING"] > 0 or self.brackets["CONNECTION"] > 0):
                ev.append("release:raise")
        return ev

    def fire(self, ev):
        kind, _, arg = ev.partition(":")
        m = self.man
        with self.loop.running():
            if kind == "discover" or kind.startswith("connect@"):
                fut = self.pending.pop(kind)
                fut.set_result(arg)
            elif kind == "spa":
                e = E[arg]
                spa = m._spa

                async def raise_it():
                    await spa._event_handler(e)

                # the real spa raises these from its own tasks, registered with the manager under the "SPA" key
                # (ping loop, refresh loop, consumers) - so spa.disconnect()'s cancel_key_tasks("SPA") hits them
                self.man.add_task(raise_it(), f"harness {arg} #{len(self.tasks)}", "SPA")
                self.tasks.append(self.man._tasks[-1])
                if e == E.RUNNING_PING_RECEIVED and m.spa_state in ERRS:
                    self.reset_due = True
            elif kind == "user":
                async def do():
                    if arg == "reset":
                        await m.async_reset()
                    else:
                        await m.async_set_spa_info("10.0.0.9", "SPA01:02:03:04:05:06", "Spa")
                    # the instant the reset returns
                    self.reset_checks.append((m.spa_state, m._facade is None, m._spa is None, m._spa_descriptors is None))
                    if not (m.spa_state == S.IDLE and m._facade is None and m._spa is None and m._spa_descriptors is None):
                        self.fail("reset-postcondition", f"{arg} returned with state {m.spa_state.name}, facade "
                                  f"{'set' if m._facade else 'None'}, spa {'set' if m._spa else 'None'}, descriptors "
                                  f"{m._spa_descriptors!r}")

                self.tasks.append(self.loop.create_task(do(), name=f"HARNESS:user:{arg}"))
            elif ev == "suspend-next":
                self.arm = True
            elif ev == "release":
                if not self.gate.done():
                    self.gate.set_result(True)
            elif ev == "release:raise":
                if not self.gate.done():
                    self.gate.set_exception(RuntimeError("the client's event handler failed (injected)"))
        self.settle()
        if self.man.spa_state not in ERRS:
            self.reset_due = False
        elif self.reset_due and self.gate is None and not any(not t.done() for t in self.tasks):
            self.fail("reset-not-completed", f"a ping was received in {self.man.spa_state.name} but, with nothing suspended any more, the "
                      f"manager is still in that state (facade {'set' if self.man._facade else 'None'}, spa "
                      f"{'set' if self.man._spa else 'None'}): the reset the table demands never completed")
        # harness-raised spa events / user calls that ended with an exception
        for t in self.tasks:
            if t.done() and not t.cancelled() and t.exception() is not None and not getattr(t, "_seen", False):
                t._seen = True
                self.errors.append((t.get_name(), repr(t.exception())))

    errors = None

    def pump(self):
        for t in self.man._tasks:
            if t.get_name() == "SPAMAN:Sequence Pump":
                return t
        return None

    def canon(self):
        m = self.man
        p = self.pump()
        if p is None or p.done():
            pos = "dead"
        elif self.pending:
            pos = ",".join(sorted(self.pending))
        else:
            pos = "run"
        d = m._spa_descriptors
        blocked = tuple(sorted(t.get_name().split(' #')[0] for t in self.tasks if not t.done()))
        return (
            m.spa_state.name, m._facade is not None, m._spa is not None,
            bool(m._spa and m._spa.is_connected), None if d is None else len(d),
            m._status_sensor is not None, m._reconnect_button is not None, m._ping_sensor is not None,
            m._status_sensor.state if m._status_sensor else None,
            pos, self.arm, self.gate_event, blocked,
            self.ann, self.prev_state.name, self.reset_due,
            tuple(sorted(self.brackets.items())),
        )

    def close(self):
        self.loop.shutdown()


def build(hist):
    w = World()
    w.errors = []
    for ev in hist:
        if ev not in w.enabled():
            raise core.HarnessError(f"replay: {ev} not enabled after {hist}")
        w.fire(ev)
    return w


def _expand(hist):
    """Worker: rebuild the state `hist`, try every enabled event from it (each on a fresh
    rebuild), return [(event, canon', violation|None, model_mismatch|None)]."""
    install_stubs()
    base = build(hist)
    evs = base.enabled()
    base_brackets = dict(base.brackets)
    base_inside = bool(base.pending) or base.gate_task == "SPAMAN:Sequence Pump"
    base_canon = base.canon()
    base.close()
    out = []
    for ev in evs:
        w = build(hist)
        n0 = len(w.log)
        st0 = w.man.spa_state
        fac0 = w.man._facade is not None
        ent0 = w.entries
        w.fire(ev)
        viol = w.viol
        # lock-step with the table: replay this transition's deliveries through the model when
        # the transition was sequential (no suspended handler in play)
        if viol is None and w.gate is None and base_gate_free(hist):
            viol = lockstep(st0, w.log[n0:], w)
        if viol is None:
            # brackets: a started phase may stay open only while the pump is blocked inside it
            for k, q in (("LOCATING", "discover"), ("CONNECTION", "connect@")):
                if w.brackets[k] > 0 and not any(p.startswith(q) for p in w.pending) and w.gate is None \
                        and not any(not t.done() for t in w.tasks):
                    viol = ("bracket-open", f"{k}_STARTED never closed by {k}_FINISHED")
        if viol is None and w.loop.exceptions:
            viol = None  # task exceptions are C09's business (pump death); recorded in canon 'dead'
        out.append((ev, w.canon(), viol, len(w.log) - n0))
        w.close()
    # probe (not a transition of the graph): the manager context is left while the pump is inside a started phase - the
    # CancelledError the phase then gets is a raise like any other, and the phase is still closed by its finished event
    if any(v > 0 for v in base_brackets.values()) and base_inside:
        w = build(hist)
        n0 = len(w.log)
        with w.loop.running():
            t = w.loop.create_task(w.man.__aexit__(None, None, None), name="HARNESS:exit")
        w.settle()
        w.settle()
        viol = w.viol
        if viol is None:
            for k in ("LOCATING", "CONNECTION"):
                if w.brackets[k] > 0:
                    viol = ("bracket-open-on-cancel", f"the manager was exited while the pump was inside a started {k} phase: the "
                                                      f"cancelled phase never announced {k}_FINISHED "
                                                      f"(deliveries after the exit: {[d[0] for d in w.log[n0:]]})")
        out.append(("probe:exit", base_canon, viol, len(w.log) - n0))
        w.close()
    return hist, out


def base_gate_free(hist):
    return "suspend-next" not in hist


def lockstep(st, deliveries, w):
    """Walk the delivered events of ONE sequential transition through the table."""
    i = 0
    n = len(deliveries)
    state = st
    pending_outer = []
    while i < n:
        name, seen_state, has_fac, text = deliveries[i]
        ev = E[name]
        if name.startswith("CLIENT_"):
            # nested announcements carry the state already set by their outer event
            i += 1
            continue
        # find what the table says for this event from the state before it
        exp, nested, resets = ref_step(state, ev, has_fac)
        if resets:
            # the reset runs inside the pre-processing: by the time the event itself is delivered
            # the manager must be IDLE with no facade
            if S[seen_state] != S.IDLE or has_fac:
                return ("table", f"event {name} from {state.name}: table says reset to IDLE, manager shows {seen_state}"
                                 f"{' with a facade' if has_fac else ''}")
            state = S.IDLE
            i += 1
            continue
        if S[seen_state] != exp and not _reset_between(deliveries, i):
            return ("table", f"event {name} from {state.name}: table says {exp.name}, manager shows {seen_state}")
        if nested is not None:
            # the nested announcement must have been delivered just before this outer delivery
            prev = deliveries[i - 1][0] if i else None
            if prev != nested.name:
                return ("nested", f"{name} in {state.name}: expected {nested.name} announced first, saw {prev}")
        state = S[seen_state]
        i += 1
    return None


def _reset_between(deliveries, i):
    return any(d[0] == "RUNNING_SPA_DISCONNECTED" for d in deliveries[: i + 1])


def run(ctx):
    install_stubs()
    cap = 40
    w0 = build(())
    init = w0.canon()
    w0.close()
    seen = {init: ()}
    frontier = [()]
    transitions = 0
    depth = 0
    closed = False
    deliveries = 0
    viol_keys = {}
    probes = 0
    while frontier:
        if depth >= cap:
            ctx.cap(f"BFS depth cap {cap} reached with {len(frontier)} unexpanded states; all states up to depth {cap} expanded")
            break
        nxt = []
        cs = max(1, len(frontier) // (ctx.workers * 8))
        for hist, outs in core.pimap(ctx, _expand, frontier, chunksize=cs):
            for ev, canon, viol, nd in outs:
                transitions += 1
                deliveries += nd
                probes += ev == "probe:exit"
                h2 = tuple(hist) + (ev,)
                if viol:
                    key = f"C08|{viol[0]}|{_site(h2)}"
                    if key not in viol_keys:
                        viol_keys[key] = h2
                        ctx.violation(key, f"history {list(h2)}: {viol[1]}", {"history": list(h2)})
                if canon not in seen:
                    seen[canon] = h2
                    nxt.append(h2)
        depth += 1
        ctx.log(f"depth {depth}: {len(seen)} states, {transitions} transitions, frontier {len(nxt)}")
        frontier = nxt
        if len(seen) > 4000 and frontier:
            ctx.cap(f"state cap 4000 exceeded at depth {depth} ({len(frontier)} unexpanded): the reachable set does not close "
                    f"(it closes at ~1,200 states on the audited tree)")
            break
    else:
        closed = True
    ctx.set("states", len(seen))
    ctx.set("transitions", transitions)
    ctx.set("traces_validated_against_impl", transitions)
    ctx.set("deliveries_checked", deliveries)
    ctx.set("bfs_depth", depth)
    ctx.set("exit_probes_inside_a_started_phase", probes)
    ctx.set("closure_reached", closed)
    ctx.set("exhaustive", closed)
    ctx.set("distinct_manager_states", len({c[:5] for c in seen}))
    ctx.sample({"history": ["discover:found", "discover:found", "connect@0:ok", "connect@1:ok", "connect@2:ok",
                            "connect@3:ok", "connect@4:ok", "spa:RUNNING_PING_NO_RESPONSE", "spa:RUNNING_PING_RECEIVED"],
                "oracle": "table lock-step + invariants at every handle_event delivery"})
    longest = max(seen.values(), key=len)
    ctx.sample({"deepest_state_history": list(longest)})
    ctx.assume("canon = (state, facade?, spa?, spa connected, #descriptors, sensors, status text, pump position, "
               "suspension, blocked harness tasks, ready-teardown balance, previous delivered state, open brackets); "
               "fields dropped (timestamps, object identities) are read by no handler")
    ctx.assume("environment outcomes are injected at the discover/_connect seams as tests/test_spaman.py does; "
               "the light facade fails exactly when the real constructor must")


def _site(h):
    """violation site = the last event plus the manager-relevant context class."""
    last = h[-1]
    ctxs = []
    if "suspend-next" in h:
        ctxs.append("suspended")
    return last + ("|" + ",".join(ctxs) if ctxs else "")


def replay(ctx, data):
    install_stubs()
    h = tuple(data["history"])
    hist, outs = _expand(h[:-1])
    if h[-1] == "probe:exit" and not any(ev == "probe:exit" for ev, c, v, nd in outs):
        raise core.HarnessError("replay: the pump is not inside a started phase after this history")
    for ev, canon, viol, nd in outs:
        if ev == h[-1] and viol:
            ctx.violation(f"C08|{viol[0]}|{_site(h)}", viol[1], data)
    ctx.set("states", 1)
    ctx.set("transitions", 1)
    ctx.set("traces_validated_against_impl", 1)
