"""C13 - facade commands emit exactly the intended device write and are idempotent.

Seam: the whole async stack connected (real handshake) to a spa model = the real simulator + what a spa
does and the simulator does not: it applies SPACK set-value writes and keypad presses to its block,
answers SETWC/GETWC from a stored mode and echoes every change as a STATP partial update.  One rig per
distinct snapshot configuration.  Blocking facade: same commands on the stepped threaded engine.

Enumerated: ALL user devices x ALL current states (set on the spa and echoed) x ALL arguments: every
pump mode, blower/light/eco on and off, target temperatures on a grid incl. the limits in both units,
both temperature units, the 5 watercare modes as integers and strings; and all command pairs (depth 2)
on one device.
Oracle: the datagrams that reach the spa between the command and quiescence are exactly one command
(none when an on/off device already is in the requested state); decoded by the reference codec it carries
the connected pack's type and config/log versions, the item's position/length/value, a sequence number in
192..255 (SETWC: 1..191); applied by the spa it makes the spa-side item equal the request; after the
echo the client's device reads the request.
"""
from __future__ import annotations

import itertools
import os
import struct

from .. import core, lib, stepped
from ..peers import SPA_ADDR, SPA_ID, SimPeer, frame, unframe
from ..refmodels.bitfield import Field
from ..rig import Rig
from ..vloop import Chooser

LEVEL = "model_checking"

from geckolib import GeckoSpaState as S  # noqa: E402
from geckolib.const import GeckoConstants as K  # noqa: E402

SNAPS = ["default.snapshot", "inYT-all off-2020-10-23 18_00_45.snapshot", "inYJ-All off-2020-12-18 11_24_09.snapshot",
         "inYT-whirlcare-prestige-all-off-2022-02-14 09_04_44.snapshot"]
KEYPAD = {16: "UdLi", 6: "BL", 23: "Waterfall"}  # keypad ids of the in.touch2 protocol (the harness's own copy)
WATERCARE_MODE_STRING = ["Away From Home", "Standard", "Energy Saving", "Super Energy Saving", "Weekender"]


class Spa(SimPeer):
    """The spa model (async rigs)."""

    def __init__(self, snapshot=None):
        super().__init__(snapshot)
        self.wc_mode = 1
        self.commands = []  # (t, kind, fields, raw content)
        self.acc = None  # filled by the harness: the simulator's own accessors

    def _echo(self, client, cid, changes):
        blk = self.block
        recs = b""
        for pos in sorted({p for p, _ in changes}):
            recs += struct.pack(">H", pos) + blk[pos:pos + 2].ljust(2, b"\0")
        n = len({p for p, _ in changes})
        self.net.send(self.addr, client, frame(SPA_ID, cid, b"STATP" + bytes([n]) + recs), base_delay=0.03)

    def apply(self, changes, client, cid):
        blk = self.block
        for pos, data in changes:
            blk = blk[:pos] + data + blk[pos + len(data):]
        self.set_block(blk)
        self._echo(client, cid, changes)

    def on_datagram(self, data, src):
        p = unframe(data)
        t = self.net.loop.time()
        if p is not None and self.mode == "healthy":
            cid, sid, content = p
            if content.startswith(b"SPACK"):
                r = content[5:]
                seq, ptype, ln, cmd = r[0], r[1], r[2], r[3]
                if cmd == 57:
                    self.commands.append((t, "keypress", {"seq": seq, "pack_type": ptype, "len": ln, "key": r[4], "rest": r[5:]}, content))
                elif cmd == 70:
                    cfgv, logv = r[4], r[5]
                    pos = int.from_bytes(r[6:8], "big")
                    self.commands.append((t, "set_value", {"seq": seq, "pack_type": ptype, "len": ln, "cfg": cfgv, "log": logv,
                                                           "pos": pos, "data": r[8:]}, content))
                else:
                    self.commands.append((t, "spack?", {"cmd": cmd}, content))
            elif content.startswith(b"SETWC"):
                self.commands.append((t, "setwc", {"seq": content[5], "mode": content[6], "rest": content[7:]}, content))
                self.wc_mode = content[6]
                self.net.send(self.addr, src, frame(sid, cid, b"WCSET"))
                self.received.append((t, src, data))
                return
            elif content.startswith(b"GETWC"):
                self.net.send(self.addr, src, frame(sid, cid, b"WCGET" + bytes([self.wc_mode & 255])))
                self.received.append((t, src, data))
                return
        super().on_datagram(data, src)
        if p is not None and self.mode == "healthy":
            cid, sid, content = p
            if self.commands and self.commands[-1][0] == t and self.commands[-1][3] == content:
                kind, f = self.commands[-1][1], self.commands[-1][2]
                if kind == "set_value":
                    ch = [(f["pos"], f["data"])]
                    ch += self.follow(f["pos"], f["data"])
                    self.apply(ch, src, cid)
                elif kind == "keypress":
                    self.apply(self.press(f["key"]), src, cid)

    # -- what the spa does with a demand write / a key press ---------------------------------
    def follow(self, pos, data):
        """A pump's state follows its user demand."""
        out = []
        for dev in ("P1", "P2", "P3", "P4", "P5", "BL", "Waterfall"):
            ud = next((k for k in self.acc if k.upper() == f"UD{dev}".upper()), None)
            if ud is None or dev not in self.acc:
                continue
            fu, fs = Field.of(self.acc[ud]), Field.of(self.acc[dev])
            if fu.pos <= pos < fu.pos + fu.width or pos <= fu.pos < pos + len(data):
                blk = self.block
                blk = blk[:pos] + data + blk[pos + len(data):]
                lab = fu.decode(blk)
                st_items = self.acc[dev].items
                if st_items and lab in st_items:
                    nb = fs.put_raw(blk, st_items.index(lab))
                    out.append((fs.pos, nb[fs.pos:fs.pos + fs.width]))
        return out

    def press(self, key):
        tag = KEYPAD.get(key)
        if tag is None or tag not in self.acc:
            return []
        a = self.acc[tag]
        f = Field.of(a)
        blk = self.block
        raw = f.raw(blk)
        if a.type == "Bool":
            new = 0 if raw else 1
        else:
            off = a.items.index("OFF") if "OFF" in a.items else 0
            on = max(i for i, x in enumerate(a.items) if x not in ("OFF", ""))
            new = on if raw == off else off
        nb = f.put_raw(blk, new)
        return [(f.pos, nb[f.pos:f.pos + f.width])]


class R13(Rig):
    def __init__(self, snapname):
        snap = lib.load_snapshot(os.path.join(lib.SNAPDIR, snapname))
        lib.reset_library()
        super().__init__(Chooser(), snapshot=snap)
        # swap the peer for the spa model (same address)
        self.peer = Spa(snap)
        self.net.add_peer(SPA_ADDR, self.peer)
        self.peer.acc = self.peer.sim.structure.accessors
        self.snap = snap
        if not self.connect(120.0):
            raise core.RigFailure("connect", f"{snapname} did not connect")
        self.loop.run_for(3.0)
        self.cid = self.man._client_id
        self.client = self.spa._transport.addr

    def spa_set(self, tag, raw):
        """Put a spa-side item into a state (a device's state follows its demand) and let the client learn it (echo)."""
        a = self.peer.acc[tag]
        f = Field.of(a)
        nb = f.put_raw(self.peer.block, raw)
        ch = [(f.pos, nb[f.pos:f.pos + f.width])]
        ch += self.peer.follow(f.pos, nb[f.pos:f.pos + f.width])
        self.peer.apply(ch, self.client, self.cid)
        self.loop.run_for(0.6)

    def responding(self):
        with self.loop.running():
            return bool(self.spa.is_connected and self.spa.is_responding_to_pings)

    def command(self, make, settle=2.5):
        """make() -> coroutine.  If the library's own ping gate is closed at call time although the spa has
        answered every ping (lock contention after a mode switch), the command is silently dropped: that is
        reported once as its own class, then the harness waits for the gate and issues the command again."""
        self.gate_dropped = False
        if not self.responding():
            coro = make()
            n0 = len(self.peer.commands)
            t = self.spawn(coro, name="HARNESS:command")
            self.loop.run_for(5.0, t.done)
            if len(self.peer.commands) == n0:
                self.gate_dropped = True
            self.loop.run_for(30.0, self.responding)
            if self.gate_dropped is False:
                return self.peer.commands[n0:], [c[3] for c in self.peer.commands[n0:]], None
        return self._command(make(), settle)

    def _command(self, coro, settle=2.5):
        self.block_before = self.peer.block
        n0 = len(self.peer.commands)
        m0 = len(self.net.sent)
        t = self.spawn(coro, name="HARNESS:command")
        self.loop.run_for(70.0, t.done)
        self.loop.run_for(settle)
        err = None
        if not t.done():
            err = "command did not return"
        elif t.exception() is not None:
            err = f"command raised {t.exception()!r}"
        wire = []
        for (tm, src, dst, data) in self.net.sent[m0:]:
            if src == self.client:
                p = unframe(data)
                if p and p[2][:5] in (b"SPACK", b"SETWC"):
                    wire.append(p[2])
        return self.peer.commands[n0:], wire, err


def judge_set(rig, cmds, wire, tag, exp_raw, why_prefix):
    """exactly one SPACK set-value on `tag` producing exp_raw."""
    spa = rig.spa
    a = rig.peer.acc[tag]
    f = Field.of(a)
    if len(wire) != 1 or len(cmds) != 1:
        return ("count", f"{why_prefix}: {len(wire)} command datagram(s) on the wire ({[w[:5] for w in wire]}), 1 expected")
    t, kind, fl, content = cmds[0]
    if kind != "set_value":
        return ("kind", f"{why_prefix}: sent {kind}, a set-value was expected")
    if not (192 <= fl["seq"] <= 255):
        return ("sequence", f"{why_prefix}: SPACK sequence {fl['seq']} outside 192..255")
    if fl["pack_type"] != spa.pack_type or fl["cfg"] != spa.config_version or fl["log"] != spa.log_version:
        return ("versions", f"{why_prefix}: SPACK carries type {fl['pack_type']} cfg {fl['cfg']} log {fl['log']}, connected pack is "
                            f"{spa.pack_type}/{spa.config_version}/{spa.log_version}")
    if fl["pos"] != f.pos or len(fl["data"]) != f.width or fl["len"] != 5 + f.width:
        return ("geometry", f"{why_prefix}: SPACK writes {len(fl['data'])} byte(s) at {fl['pos']} (len byte {fl['len']}), item {tag} is "
                            f"{f.width} byte(s) at {f.pos}")
    # nothing but the item itself (and the state item the spa lets follow it) may change on the spa
    before = getattr(rig, "block_before", None)
    if before is not None:
        allowed = set(range(f.pos, f.pos + f.width))
        own = f.mask << f.shift
        for p_, d_ in rig.peer.follow(f.pos, rig.peer.block[f.pos:f.pos + f.width]):
            allowed.update(range(p_, p_ + len(d_)))
        after = rig.peer.block
        for i in range(1024):
            if before[i] != after[i] and i not in allowed:
                return ("collateral", f"{why_prefix}: spa byte {i} changed {before[i]:#x}->{after[i]:#x} although only {tag} was commanded")
        wb = int.from_bytes(before[f.pos:f.pos + f.width], "big")
        wa = int.from_bytes(after[f.pos:f.pos + f.width], "big")
        foreign = (wb ^ wa) & ~own
        # bits of the state item that follows may live in the same word
        fol = 0
        for dev in ("P1", "P2", "P3", "P4", "P5", "BL", "Waterfall"):
            if dev in rig.peer.acc:
                fs = Field.of(rig.peer.acc[dev])
                if fs.pos == f.pos and fs.width == f.width:
                    fol |= fs.mask << fs.shift
        if foreign & ~fol:
            return ("collateral", f"{why_prefix}: the write changed bits {foreign & ~fol:#x} of the word at {f.pos} that belong to other items "
                                  f"(word {wb:#x}->{wa:#x}, {tag} owns {own:#x})")
    if f.raw(rig.peer.block) != exp_raw:
        return ("effect", f"{why_prefix}: after the spa applied the write, {tag} holds raw {f.raw(rig.peer.block)}, requested {exp_raw}")
    if rig.spa.struct.status_block[f.pos:f.pos + f.width] != rig.peer.block[f.pos:f.pos + f.width]:
        return ("read-back", f"{why_prefix}: after the echo the client's {tag} bytes differ from the spa's")
    return None


def _rig_job(snapname):
    try:
        rig = R13(snapname)
    except core.RigFailure as e:
        raise core.HarnessError(str(e))
    fac = rig.facade
    acc = rig.peer.acc
    bad = []
    n = 0

    def note(why, what):
        if why and not any(b[0][0] == why[0] and b[1] == what for b in bad):
            bad.append((why, what))

    orig_command = rig.command

    def command(make, settle=2.5):
        r = orig_command(make, settle)
        if rig.gate_dropped:
            note(("dropped-by-ping-gate", "a command issued right after a mode switch was silently dropped: the library's "
                  "responding-to-pings window (2 x ping period, 4 s in active mode) had lapsed because pings queue behind the refresh/"
                  "watercare/reminder burst every switch triggers, although the spa answered every ping"), "any")
        return r

    rig.command = command

    # ---- pumps: every current mode x every requested mode ---------------------------------
    for pump in fac.pumps:
        ud = pump._user_demand["demand"]
        modes = [m for m in pump.modes if m != ""]
        for cur, req in itertools.product(modes, repeat=2):
            rig.spa_set(ud, acc[ud].items.index(cur))
            n += 1
            cmds, wire, err = rig.command(lambda: pump.async_set_mode(req))
            if err:
                note(("engine", err), f"pump {pump.key}")
                continue
            note(judge_set(rig, cmds, wire, ud, acc[ud].items.index(req), f"pump {pump.key} {cur}->{req}"), f"pump {pump.key}")
            if not bad and pump.mode != req and req in rig.spa.accessors[pump._state_sensor.accessor.tag].items:
                note(("read-back", f"pump {pump.key} set to {req}: after the echo the device reads {pump.mode!r}"), f"pump {pump.key}")
        # the same with every OTHER pump/blower demand switched on (shared demand words are then non-zero)
        others = [q for q in fac.pumps if q is not pump]
        for q in others:
            uq = q._user_demand["demand"]
            rig.spa_set(uq, max(i for i, x in enumerate(acc[uq].items) if x not in ("OFF", "")))
        for cur, req in itertools.product(modes, repeat=2):
            rig.spa_set(ud, acc[ud].items.index(cur))
            n += 1
            cmds, wire, err = rig.command(lambda: pump.async_set_mode(req))
            note(("engine", err) if err else judge_set(rig, cmds, wire, ud, acc[ud].items.index(req),
                                                        f"pump {pump.key} {cur}->{req} with the other pumps running"), f"pump {pump.key}")
        for q in others:
            uq = q._user_demand["demand"]
            rig.spa_set(uq, acc[uq].items.index("OFF") if "OFF" in acc[uq].items else 0)
        # depth 2: all command pairs from OFF
        for r1, r2 in itertools.product(modes, repeat=2):
            rig.spa_set(ud, acc[ud].items.index(modes[0]))
            for req in (r1, r2):
                n += 1
                cmds, wire, err = rig.command(lambda: pump.async_set_mode(req), settle=1.0)
                note(("engine", err) if err else judge_set(rig, cmds, wire, ud, acc[ud].items.index(req), f"pump {pump.key} seq {r1},{r2}"),
                     f"pump {pump.key}")
    # ---- blowers, lights (key press toggles), eco (direct write) -------------------------------
    switches = list(fac.blowers) + list(fac.lights) + ([fac.eco_mode] if fac.eco_mode is not None else [])
    for sw in switches:
        tag = sw._accessor.tag
        a = acc[tag]
        f = Field.of(a)
        if a.type == "Bool":
            off_raw, on_raw = 0, 1
        else:
            off_raw = a.items.index("OFF") if "OFF" in a.items else 0
            on_raw = max(i for i, x in enumerate(a.items) if x not in ("OFF", ""))
        # every current state: OFF and EVERY running level the item has (a multi-level light: LO, MED, HI)
        if a.type == "Bool":
            levels = [0, 1]
        else:
            levels = [off_raw] + [i for i, x in enumerate(a.items) if x not in ("OFF", "") and i != off_raw]
        for cur_raw, want_on in itertools.product(levels, (False, True)):
            cur_on = cur_raw != off_raw
            rig.spa_set(tag, cur_raw)
            if bool(sw.is_on) != cur_on:
                note(("state", f"{sw.key}: spa item {tag} raw {cur_raw} ({a.items[cur_raw] if a.items else cur_raw}) but is_on={sw.is_on}"),
                     f"switch {sw.key}")
                continue
            n += 1
            cmds, wire, err = rig.command((lambda: sw.async_turn_on()) if want_on else (lambda: sw.async_turn_off()))
            what = f"switch {sw.key}"
            pre = f"{sw.key} {(a.items[cur_raw] if a.items else cur_raw)}->{'on' if want_on else 'off'}"
            if err:
                note(("engine", err), what)
                continue
            if cur_on == want_on:
                if wire or cmds:
                    note(("not-idempotent", f"{pre}: {len(wire)} command(s) sent although the device already is in that state"), what)
                continue
            if sw._keypad_button != 0:
                if len(wire) != 1 or len(cmds) != 1 or cmds[0][1] != "keypress":
                    note(("count", f"{pre}: {len(wire)} command datagram(s) {[c[1] for c in cmds]}, one key press expected"), what)
                    continue
                fl = cmds[0][2]
                if fl["key"] != sw._keypad_button or fl["len"] != 2 or fl["rest"] or KEYPAD.get(fl["key"]) != tag:
                    note(("keypad", f"{pre}: key press {fl['key']} (len {fl['len']}), the device's keypad id is the one toggling {tag}"), what)
                if not (192 <= fl["seq"] <= 255):
                    note(("sequence", f"{pre}: SPACK sequence {fl['seq']} outside 192..255"), what)
                if fl["pack_type"] != rig.spa.pack_type:
                    note(("versions", f"{pre}: key press carries pack type {fl['pack_type']}, connected pack is {rig.spa.pack_type}"), what)
                if (f.raw(rig.peer.block) == on_raw) != want_on:
                    note(("effect", f"{pre}: after the spa applied the key press {tag} is raw {f.raw(rig.peer.block)}"), what)
            else:
                note(judge_set(rig, cmds, wire, tag, on_raw if want_on else off_raw, pre), what)
            if bool(sw.is_on) != want_on:
                note(("read-back", f"{pre}: after the echo is_on={sw.is_on}"), what)
    # ---- heater: units and target temperature ------------------------------------------------
    h = fac.water_heater
    tu = acc["TempUnits"]
    for cur_u, arg in itertools.product(range(2), ("C", "F", "°C", "°F", "c", "f")):
        rig.spa_set("TempUnits", cur_u)
        n += 1
        cmds, wire, err = rig.command(lambda: h.async_set_temperature_unit(arg))
        want = "F" if arg in ("F", "f", "°F") else "C"
        note(("engine", err) if err else judge_set(rig, cmds, wire, "TempUnits", tu.items.index(want), f"unit {tu.items[cur_u]}->{arg}"),
             "heater units")
        if not err and h.temperature_unit != ("°F" if want == "F" else "°C"):
            note(("read-back", f"unit set to {arg}: heater reports {h.temperature_unit}"), "heater units")
    for u in range(2):
        rig.spa_set("TempUnits", u)
        unit = tu.items[u]
        lo, hi = (15, 40) if unit == "C" else (59, 104)
        temps = [lo, lo + 0.5, (lo + hi) / 2, hi - 0.5, hi, str(hi - 1), float(lo + 1)]
        for t in temps:
            n += 1
            cmds, wire, err = rig.command(lambda: h.async_set_target_temperature(t))
            x = float(t)
            exp_raw = int(x * 18.0) if unit == "C" else int(x * 10.0 - 320)
            note(("engine", err) if err else judge_set(rig, cmds, wire, "SetpointG", exp_raw, f"setpoint {t}{unit}"), "heater setpoint")
            if not err and abs(h.target_temperature - x) > (1 / 18.0 if unit == "C" else 0.1):
                note(("read-back", f"setpoint {t}{unit}: heater reads {h.target_temperature}"), "heater setpoint")
    # ---- watercare ----------------------------------------------------------------------
    wc = fac.water_care
    for cur, req in itertools.product(range(5), list(range(5)) + list(WATERCARE_MODE_STRING)):
        rig.peer.wc_mode = cur
        wc.change_watercare_mode(cur)
        n += 1
        cmds, wire, err = rig.command(lambda: wc.async_set_mode(req))
        want = req if isinstance(req, int) else WATERCARE_MODE_STRING.index(req)
        what = "watercare"
        if err:
            note(("engine", err), what)
            continue
        if len(wire) != 1 or len(cmds) != 1 or cmds[0][1] != "setwc":
            note(("count", f"watercare {cur}->{req!r}: {len(wire)} command datagram(s) {[c[1] for c in cmds]}, one SETWC expected"), what)
            continue
        fl = cmds[0][2]
        if fl["mode"] != want or fl["rest"]:
            note(("value", f"watercare {cur}->{req!r}: SETWC carries mode {fl['mode']}"), what)
        if not (1 <= fl["seq"] <= 191):
            note(("sequence", f"watercare: SETWC sequence {fl['seq']} outside 1..191"), what)
        if rig.peer.wc_mode != want or wc.mode != want:
            note(("read-back", f"watercare {cur}->{req!r}: spa holds {rig.peer.wc_mode}, client reads {wc.mode}"), what)
    # ---- commands issued while one of the library's OWN background requests is in flight ----------
    # (facade update's GETWC / REQRM, the periodic refresh STATU, a ping): wait for the client's next transmission
    # of that verb, then issue the command d seconds later, d on a grid across the request's round trip
    if snapname == SNAPS[0]:
        grid = [0.0, 0.005, 0.015, 0.03, 0.045, 0.06, 0.08, 0.1, 0.125, 0.15, 0.2]
        p0 = fac.pumps[0] if fac.pumps else None
        n_bg = 0
        stalled = False
        for verb, lossy in ((b"GETWC", False), (b"REQRM", False), (b"STATU", False), (b"APING", False),
                            (b"GETWC", True), (b"STATU", True), (b"REQRM", True)):
            # lossy: that background request is lost once, so it occupies the protocol lock for a whole time-out (and
            # pause) while the command waits behind it
            if stalled:
                break
            for d in (grid if not lossy else [0.05, 0.5, 3.0]):
                if stalled:
                    break
                for kind in ("watercare", "pump"):
                    if kind == "pump" and p0 is None:
                        continue
                    m0 = len(rig.net.sent)
                    if lossy:
                        dropped = []

                        def drop(data, src, verb=verb, dropped=dropped):
                            if verb in data and not dropped:
                                dropped.append(1)
                                return True
                            return False

                        rig.peer.drop_request = drop

                    def seen():
                        for (tm, src, dst, data) in rig.net.sent[m0:]:
                            if src == rig.client:
                                pp = unframe(data)
                                if pp and pp[2][:5] == verb:
                                    return True
                        return False

                    if not rig.loop.run_for(400.0, seen):
                        if n_bg == 0:
                            raise core.HarnessError(f"C13: the client never sent {verb!r} in 400 s")
                        note(("engine", f"after the preceding commands the client's periodic {verb.decode()} stopped for 400 s "
                                        f"(manager state {rig.man.spa_state.name}, errors {lib.LOG.records[:1]})"), "background requests")
                        stalled = True
                        break
                    n_bg += 1
                    rig.loop.run_for(d)
                    n += 1
                    tag_l = " (lost once)" if lossy else ""
                    if kind == "watercare":
                        want = (wc.mode + 1) % 5 if isinstance(wc.mode, int) else 1
                        cmds, wire, err = rig._command(wc.async_set_mode(want), settle=3.0 if not lossy else 12.0)
                        if err:
                            note(("engine", err), "watercare during " + verb.decode() + tag_l)
                        elif rig.peer.wc_mode != want or wc.mode != want or len([c for c in cmds if c[1] == "setwc"]) != 1:
                            note(("read-back", f"watercare set to {want} {d*1000:.0f} ms after the client's own {verb.decode()} went out: "
                                               f"{len(cmds)} command(s), spa holds {rig.peer.wc_mode}, client reads {wc.mode}"),
                                 "watercare during " + verb.decode() + tag_l)
                    else:
                        ud = p0._user_demand["demand"]
                        modes = [m for m in p0.modes if m != ""]
                        cur = p0.mode if p0.mode in modes else modes[0]
                        req = modes[(modes.index(cur) + 1) % len(modes)]
                        cmds, wire, err = rig._command(p0.async_set_mode(req), settle=3.0 if not lossy else 12.0)
                        if err:
                            note(("engine", err), "pump during " + verb.decode() + tag_l)
                        else:
                            why = judge_set(rig, cmds, wire, ud, acc[ud].items.index(req), f"pump {p0.key} ->{req} {d*1000:.0f} ms after {verb.decode()}")
                            if why is None and p0.mode != req and req in rig.spa.accessors[p0._state_sensor.accessor.tag].items:
                                why = ("read-back", f"pump {p0.key} set to {req} {d*1000:.0f} ms after the client's own {verb.decode()}: reads {p0.mode!r}")
                            note(why, "pump during " + verb.decode() + tag_l)
        rig.peer.drop_request = None
    ndev = len(fac.pumps) + len(switches)
    rig.exit()
    rig.close()
    return snapname, n, ndev, bad


# ---- blocking facade on the stepped engine ------------------------------------------------------
def _threaded_job(snapname):
    from geckolib.driver import GeckoPartialStatusBlockProtocolHandler, GeckoUdpProtocolHandler
    from .c11 import _NoThread
    from geckolib.automation import facade as f_mod
    import threading

    snap = lib.load_snapshot(os.path.join(lib.SNAPDIR, snapname))
    rig = stepped.TRig(Chooser(), snapshot=snap)
    sim = rig.peer.sim
    acc = sim.structure.accessors
    commands = []
    wc = {"mode": 1}
    model = Spa.__new__(Spa)  # borrow follow()/press() with the simulator's block
    model.acc = acc
    model.sim = sim

    orig_pack = sim._on_pack_command

    def on_pack(handler, sender):
        orig_pack(handler, sender)
        changes = []
        if handler.is_set_value:
            commands.append(("set_value", handler._sequence, handler.pack_type, handler.position, handler.new_data))
            changes = [(handler.position, handler.new_data)] + model.follow(handler.position, handler.new_data)
        elif handler.is_key_press:
            commands.append(("keypress", handler._sequence, handler.pack_type, handler.keycode, None))
            changes = model.press(handler.keycode)
        blk = sim.structure.status_block
        for pos, data in changes:
            blk = blk[:pos] + data + blk[pos + len(data):]
        sim.structure.set_status_block(blk)
        if changes:
            recs = [(p, blk[p:p + 2]) for p in sorted({p for p, _ in changes})]
            sim._socket.queue_send(GeckoPartialStatusBlockProtocolHandler.report_changes(sim._socket, recs, parms=sender), sender)

    for hnd in sim._socket._receive_handlers:
        if type(hnd).__name__ == "GeckoPackCommandProtocolHandler":
            hnd._on_handled = on_pack

    class SetWC(GeckoUdpProtocolHandler):
        def can_handle(self, b, s):
            return b.startswith(b"SETWC")

        def handle(self, b, s):
            commands.append(("setwc", b[5], None, b[6], b[7:]))
            wc["mode"] = b[6]

    sim._socket._receive_handlers.insert(2, SetWC())
    f_mod.threading = type("T", (), {"Thread": _NoThread})
    try:
        fac = f_mod.GeckoFacade(rig.spa)
    finally:
        f_mod.threading = threading
    if not rig.connect():
        raise core.HarnessError(f"C13 threaded: {snapname} did not connect")
    rig.run_for(1.0)
    if not fac._facade_ready:
        raise core.HarnessError("C13 threaded: facade not ready after connect")
    bad = []
    n = 0

    def note(why, what):
        if why and not any(b[0][0] == why[0] and b[1] == what for b in bad):
            bad.append((why, what))

    def run_cmd(fn):
        del commands[:]
        try:
            with stepped.patched_clock(rig.world.clock):
                rig.world.net.clock.t = rig.world.now()
                fn()
        except Exception as e:  # noqa - a facade command that raises is the library's failure, not the harness's
            note(("raised", f"blocking facade command raised {e!r}"), "threaded command")
            return [("raised", 0, 0, 0, repr(e))]
        rig.run_for(3.0)
        return list(commands)

    def spa_set(tag, raw):
        f = Field.of(acc[tag])
        nb = f.put_raw(sim.structure.status_block, raw)
        sim.structure.set_status_block(nb)
        rig.inject(frame(SPA_ID, b"IOSgeckomc-0001", b"STATP\x01" + struct.pack(">H", f.pos) + nb[f.pos:f.pos + 2]))
        rig.run_for(0.6)

    spa = rig.spa
    for pump in fac.pumps:
        ud = pump._user_demand["demand"]
        modes = [m for m in pump.modes if m != ""]
        f = Field.of(acc[ud])
        for cur, req in itertools.product(modes, repeat=2):
            spa_set(ud, acc[ud].items.index(cur))
            n += 1
            cmds = run_cmd(lambda: pump.set_mode(req))
            pre = f"pump {pump.key} {cur}->{req}"
            if len(cmds) != 1 or cmds[0][0] != "set_value":
                note(("count", f"{pre}: commands {cmds}"), f"pump {pump.key}")
                continue
            _, seq, ptype, pos, data = cmds[0]
            if not (192 <= seq <= 255):
                note(("sequence", f"{pre}: SPACK sequence {seq} outside 192..255"), f"pump {pump.key}")
            if ptype != spa.pack_type or pos != f.pos or len(data) != f.width:
                note(("geometry", f"{pre}: SPACK type {ptype} pos {pos} len {len(data)}"), f"pump {pump.key}")
            if f.raw(sim.structure.status_block) != acc[ud].items.index(req):
                note(("effect", f"{pre}: spa holds raw {f.raw(sim.structure.status_block)}"), f"pump {pump.key}")
            if spa.struct.status_block[f.pos:f.pos + f.width] != sim.structure.status_block[f.pos:f.pos + f.width]:
                note(("read-back", f"{pre}: client bytes differ from the spa's after the echo"), f"pump {pump.key}")
    for sw in list(fac.blowers) + list(fac.lights):
        tag = sw._accessor.tag
        a = acc[tag]
        f = Field.of(a)
        off_raw = a.items.index("OFF") if a.type != "Bool" and "OFF" in a.items else 0
        on_raw = 1 if a.type == "Bool" else max(i for i, x in enumerate(a.items) if x not in ("OFF", ""))
        levels = [0, 1] if a.type == "Bool" else [off_raw] + [i for i, x in enumerate(a.items) if x not in ("OFF", "") and i != off_raw]
        for cur_raw, want_on in itertools.product(levels, (False, True)):
            cur_on = cur_raw != off_raw
            spa_set(tag, cur_raw)
            n += 1
            cmds = run_cmd(sw.turn_on if want_on else sw.turn_off)
            pre = f"{sw.key} {(a.items[cur_raw] if a.items else cur_raw)}->{'on' if want_on else 'off'}"
            if cur_on == want_on:
                if cmds:
                    note(("not-idempotent", f"{pre}: commands {cmds}"), f"switch {sw.key}")
                continue
            if len(cmds) != 1 or cmds[0][0] != "keypress" or KEYPAD.get(cmds[0][3]) != tag:
                note(("count", f"{pre}: commands {cmds}"), f"switch {sw.key}")
                continue
            if not (192 <= cmds[0][1] <= 255):
                note(("sequence", f"{pre}: SPACK sequence {cmds[0][1]} outside 192..255"), f"switch {sw.key}")
            if bool(sw.is_on) != want_on:
                note(("read-back", f"{pre}: after the echo is_on={sw.is_on}"), f"switch {sw.key}")
    h = fac.water_heater
    tu = acc["TempUnits"]
    for u in range(2):
        spa_set("TempUnits", u)
        unit = tu.items[u]
        lo, hi = (15, 40) if unit == "C" else (59, 104)
        fs = Field.of(acc["SetpointG"])
        for t in (lo, (lo + hi) / 2, hi):
            n += 1
            cmds = run_cmd(lambda: h.set_target_temperature(t))
            exp_raw = int(float(t) * 18.0) if unit == "C" else int(float(t) * 10.0 - 320)
            if len(cmds) != 1 or cmds[0][0] != "set_value" or cmds[0][3] != fs.pos or cmds[0][4] != exp_raw.to_bytes(2, "big"):
                note(("setpoint", f"setpoint {t}{unit}: commands {cmds}, expected raw {exp_raw} at {fs.pos}"), "heater")
            elif not (192 <= cmds[0][1] <= 255):
                note(("sequence", f"setpoint: SPACK sequence {cmds[0][1]} outside 192..255"), "heater")
    for req in list(range(5)) + list(WATERCARE_MODE_STRING):
        n += 1
        cmds = run_cmd(lambda: fac.water_care.set_mode(req))
        want = req if isinstance(req, int) else WATERCARE_MODE_STRING.index(req)
        if len(cmds) != 1 or cmds[0][0] != "setwc" or cmds[0][3] != want or cmds[0][4]:
            note(("watercare", f"watercare {req!r}: commands {cmds}"), "watercare")
        elif not (1 <= cmds[0][1] <= 191):
            note(("sequence", f"watercare: SETWC sequence {cmds[0][1]} outside 1..191"), "watercare")
    return snapname, n, bad


def run(ctx):
    states = set()
    trans = 0
    for snapname, n, ndev, bad in core.pmap(ctx, _rig_job, SNAPS if not ctx.quick else SNAPS[:3], chunksize=1):
        trans += n
        states.add((snapname, ndev))
        ctx.log(f"async {snapname}: {ndev} switchable devices, {n} commands judged")
        for why, what in bad:
            ctx.violation(f"C13|async|{why[0]}|{what}", f"{snapname}: {why[1]}", {"mode": "async", "snapshot": snapname})
    for snapname, n, bad in core.pmap(ctx, _threaded_job, SNAPS[:2], chunksize=1):
        trans += n
        states.add(("threaded", snapname))
        ctx.log(f"threaded {snapname}: {n} commands judged")
        for why, what in bad:
            ctx.violation(f"C13|threaded|{why[0]}|{what}", f"{snapname}: {why[1]}", {"mode": "threaded", "snapshot": snapname})
    ctx.set("states", max(2, len(states)))
    ctx.set("transitions", trans)
    ctx.set("traces_validated_against_impl", trans)
    ctx.sample({"device": "pump P1", "current": "LO", "command": "async_set_mode('HI')",
                "oracle": "one SPACK set-value at UdP1, seq 192..255, pack type/cfg/log of the connection; spa item becomes HI; client reads HI"})
    ctx.sample({"device": "light LI", "current": "on", "command": "async_turn_on()", "oracle": "no datagram"})
    ctx.assume("the spa is modelled: it applies set-value writes and key presses (light/blower/waterfall toggles), lets a device's "
               "state follow its demand, stores the watercare mode and echoes changes as STATP partial updates")


def replay(ctx, data):
    if data["mode"] == "async":
        snapname, n, ndev, bad = _rig_job(data["snapshot"])
    else:
        snapname, n, bad = _threaded_job(data["snapshot"])
    for why, what in bad:
        ctx.violation(f"C13|{data['mode']}|{why[0]}|{what}", why[1], data)
    ctx.set("states", 1)
    ctx.set("transitions", 1)
    ctx.set("traces_validated_against_impl", 1)
