"""C14 - temperature values, units, limits and heater operation are consistent.

E6, exhaustive over the finite domains, on real GeckoTempStructAccessor / GeckoWaterHeater objects:
 (a) read: ALL raw words 0..65535 x both units: value = raw/18 (C) or (raw+320)/10 (F);
 (b) write: every representable value (the float read back from each raw word, both units, as float and
     as string) reads back exactly; every decimal k/100 in [min-5, max+5] (both units, float and string)
     lands within one device step (1/18 C, 0.1 F) and ordering is preserved (monotone raw);
 (c) heater on EVERY shipped platform x config x log combination that has the heater items: unit symbol
     and min/max follow the unit setting; the operation ladder over all heating x cooling flag values x
     (current <,=,> real set-point) for whichever flags the pack has; target/current/real readings equal
     the reference decode at boundary raws in both units.
"""
from __future__ import annotations

import itertools

from .. import core, fakes, lib
from ..refmodels.bitfield import Field
from .c02 import apply_write, run_async

LEVEL = "exploration"

from geckolib.automation.heater import GeckoWaterHeater  # noqa: E402
from geckolib.driver import accessor as amod  # noqa: E402

STEP = {"C": 1 / 18.0, "F": 0.1}
LIMITS = {"C": (15, 40, "°C"), "F": (59, 104, "°F")}


def ref_temp(raw, unit):
    return raw / 18.0 if unit == "C" else (raw + 320) / 10.0


def _mk(order):
    spa = fakes.FakeSpa()
    st = spa.struct
    t = amod.GeckoTempStructAccessor(st, "SetpointG", 100, "ALL")
    u = amod.GeckoEnumStructAccessor(st, "TempUnits", 33, None, list(order), None, None, "ALL")
    st.accessors = {"SetpointG": t, "TempUnits": u}
    return spa, t, u


def _rw_job(job):
    order, lo, hi = job
    spa, t, u = _mk(order)
    st = spa.struct
    n = 0
    base = bytes(1024)
    # reads: the SAME live accessor sees every raw word under unit A, then B, then A again (the word does not move
    # while the unit setting flips)
    for raw in range(lo, hi):
        for ui, unit in list(enumerate(order)) + [(0, order[0])]:
            n += 1
            blk = base[:33] + bytes([ui]) + base[34:100] + raw.to_bytes(2, "big") + base[102:]
            st.set_status_block(blk)
            v = t.value
            exp = ref_temp(raw, unit)
            if v != exp:
                return n, ("read", f"raw {raw} unit {unit} (after reading the same word in the other unit): value {v!r}, expected {exp!r}")
    for ui, unit in enumerate(order):
        blk0 = base[:33] + bytes([ui]) + base[34:]
        for raw in range(lo, hi):
            n += 1
            blk = blk0[:100] + raw.to_bytes(2, "big") + blk0[102:]
            st.set_status_block(blk)
            v = t.value
            exp = ref_temp(raw, unit)
            if v != exp:
                return n, ("read", f"raw {raw} unit {unit}: value {v!r}, expected {exp!r}")
            # write the representable value back on a different prior content, as float and as string
            for form in (v, repr(v)):
                prior = blk0[:100] + ((raw * 7 + 13) % 65536).to_bytes(2, "big") + blk0[102:]
                st.set_status_block(prior)
                del spa.commands[:]
                try:
                    t.value = form
                    w1 = list(spa.commands)
                    del spa.commands[:]
                    run_async(t.async_set_value(form))
                except core.HarnessError:
                    raise
                except Exception as e:  # noqa
                    return n, ("write-raised", f"writing {form!r} ({unit}) raised {e!r}")
                if w1 != spa.commands or len(w1) != 1:
                    return n, ("paths-differ", f"writing {form!r}: blocking {w1}, awaitable {spa.commands}")
                _, pos, ln, val = w1[0]
                if (pos, ln) != (100, 2) or val != raw:
                    return n, ("not-exact", f"writing representable {form!r} ({unit}, raw {raw}) emitted raw {val}")
    # a unit byte outside the two labels (the setting reads 'Unknown'): whichever of the two presentations the accessor
    # uses, it uses the same one for reading and for writing - a value it presents is written back exactly
    for ub in (2, 3, 128, 255):
        blk0 = base[:33] + bytes([ub]) + base[34:]
        for raw in range(lo + (ub % 7), hi, 53):
            n += 1
            st.set_status_block(blk0[:100] + raw.to_bytes(2, "big") + blk0[102:])
            v = t.value
            if v not in (ref_temp(raw, "C"), ref_temp(raw, "F")):
                return n, ("read", f"raw {raw} with unit byte {ub}: value {v!r} is neither raw/18 nor (raw+320)/10")
            st.set_status_block(blk0[:100] + ((raw * 7 + 13) % 65536).to_bytes(2, "big") + blk0[102:])
            del spa.commands[:]
            try:
                t.value = v
            except Exception as e:  # noqa
                return n, ("write-raised", f"writing {v!r} with unit byte {ub} raised {e!r}")
            if len(spa.commands) != 1 or spa.commands[0][1:] != (100, 2, raw):
                return n, ("not-exact", f"unit byte {ub}: raw {raw} is presented as {v!r}, but writing {v!r} emits {spa.commands}")
    return n, None


def _decimal_job(job):
    order, unit = job
    spa, t, u = _mk(order)
    st = spa.struct
    ui = list(order).index(unit)
    lo, hi, _ = LIMITS[unit]
    blk = bytes(33) + bytes([ui]) + bytes(1024 - 34)
    st.set_status_block(blk)
    n = 0
    prev = None
    for k in range((lo - 5) * 100, (hi + 5) * 100 + 1):
        x = k / 100.0
        vals = []
        for form in (x, f"{x:.2f}", f"{k // 100}.{k % 100:02d}"):
            n += 1
            del spa.commands[:]
            try:
                t.value = form
            except Exception as e:  # noqa
                return n, ("write-raised", f"writing {form!r} ({unit}) raised {e!r}")
            if len(spa.commands) != 1:
                return n, ("emit", f"writing {form!r} emitted {spa.commands}")
            vals.append(spa.commands[0][3])
            w1 = list(spa.commands)
            del spa.commands[:]
            try:
                run_async(t.async_set_value(form))
            except core.HarnessError:
                raise
            except Exception as e:  # noqa
                return n, ("write-raised", f"awaitable write of {form!r} ({unit}) raised {e!r}")
            if spa.commands != w1:
                return n, ("paths-differ", f"writing {form!r} ({unit}): blocking {w1}, awaitable {spa.commands}")
        if len(set(vals)) != 1:
            return n, ("forms-differ", f"{x} ({unit}) as float/string gives raws {vals}")
        raw = vals[0]
        if not (0 <= raw <= 65535):
            return n, ("range", f"{x} ({unit}) -> raw {raw}")
        back = ref_temp(raw, unit)
        if abs(back - x) >= STEP[unit] + 1e-9:
            return n, ("step", f"{x} ({unit}) -> raw {raw} reads back {back}, more than one device step away")
        if prev is not None and raw < prev:
            return n, ("order", f"{x} ({unit}) -> raw {raw} below the raw {prev} of the previous (smaller) value")
        prev = raw
    return n, None


def _heater_job(job):
    plat, cfg, log = job[:3]
    spa = fakes.FakeSpa().load(plat, cfg, log)
    acc = spa.accessors
    for drop in (job[3] if len(job) > 3 else ()):
        acc.pop(drop, None)  # synthetic pack variant lacking a flag item (the ladder's other rungs)
    need = ("TempUnits", "SetpointG", "DisplayedTempG", "RealSetPointG")
    if any(k not in acc for k in need):
        return job, 0, None, "no-heater-items"
    try:
        heater = GeckoWaterHeater(fakes.FakeFacade(spa))
    except Exception as e:  # noqa
        return job, 0, ("construct", f"heater cannot be built: {e!r}"), None
    st = spa.struct
    f = {k: Field.of(acc[k]) for k in need}
    fl = {k: Field.of(acc[k]) for k in ("Heating", "CoolingDown") if k in acc}
    units = acc["TempUnits"].items
    n = 0
    base = bytes(1024)
    for ui, unit in enumerate(units[:2]):
        b0 = f["TempUnits"].put_raw(base, ui)
        st.set_status_block(b0)
        lo, hi, sym = LIMITS.get(unit, LIMITS["F"])
        n += 1
        if heater.temperature_unit != sym or heater.min_temp != lo or heater.max_temp != hi:
            return job, n, ("limits", f"unit {unit}: symbol {heater.temperature_unit!r} limits {heater.min_temp}..{heater.max_temp}, "
                                      f"expected {sym!r} {lo}..{hi}"), None
        for raw in (0, 1, 270, 540, 684, 720, 65535):
            blk = b0
            for k, off in (("SetpointG", 0), ("DisplayedTempG", 3), ("RealSetPointG", 7)):
                blk = f[k].put_raw(blk, (raw + off) % 65536)
            st.set_status_block(blk)
            n += 1
            got = (heater.target_temperature, heater.current_temperature, heater.real_target_temperature)
            exp = tuple(ref_temp((raw + off) % 65536, unit) for off in (0, 3, 7))
            if got != exp:
                return job, n, ("reading", f"unit {unit} raw {raw}: heater reads {got}, expected {exp}"), None
        # the three readings are independent of each other: every combination of boundary words (0 included)
        for r3 in itertools.product((0, 1, 684, 65535), repeat=3):
            blk = b0
            for k, r in zip(("SetpointG", "DisplayedTempG", "RealSetPointG"), r3):
                blk = f[k].put_raw(blk, r)
            st.set_status_block(blk)
            n += 1
            got = (heater.target_temperature, heater.current_temperature, heater.real_target_temperature)
            exp = tuple(ref_temp(r, unit) for r in r3)
            if got != exp:
                return job, n, ("reading", f"unit {unit} words (set point, current, real set point) = {r3}: heater reads {got}, expected {exp}"), None
        # a set point the client asks for that the spa does not take (command lost, clamped, or a value between two
        # device steps that truncates onto the step already held): the heater goes on presenting the device's word
        for raw in (540, 666):
            blk = b0
            for k in ("SetpointG", "DisplayedTempG", "RealSetPointG"):
                blk = f[k].put_raw(blk, raw)
            st.set_status_block(blk)
            cur = ref_temp(raw, unit)
            for ask in (cur, cur + 0.03, cur + 2.0, cur - 1.0):
                for path in ("async", "sync"):
                    n += 1
                    try:
                        if path == "async":
                            run_async(heater.async_set_target_temperature(ask))
                        else:
                            heater.set_target_temperature(ask)
                    except core.HarnessError:
                        raise
                    except Exception as e:  # noqa
                        return job, n, ("set-raised", f"unit {unit}: set_target_temperature({ask}) raised {e!r}"), None
                    st.set_status_block(blk)  # the spa still holds (and reports) the old word
                    if heater.target_temperature != cur:
                        return job, n, ("reading", f"unit {unit}: the device holds set point word {raw} ({cur}); after a {path} request "
                                                   f"for {ask} that the spa did not take the heater reads {heater.target_temperature}"), None
        # unit flipped while the stored readings stay: readings, symbol and limits must all follow
        for raw in (540, 684):
            blk = b0
            for k in ("SetpointG", "DisplayedTempG", "RealSetPointG"):
                blk = f[k].put_raw(blk, raw)
            for uj in (ui, 1 - ui, ui):
                if uj >= len(units[:2]):
                    continue
                st.set_status_block(f["TempUnits"].put_raw(blk, uj))
                n += 1
                u2 = units[uj]
                exp3 = (ref_temp(raw, u2),) * 3
                got3 = (heater.target_temperature, heater.current_temperature, heater.real_target_temperature)
                if got3 != exp3 or heater.temperature_unit != LIMITS.get(u2, LIMITS["F"])[2]:
                    return job, n, ("unit-flip", f"raw {raw} after switching the unit to {u2}: heater reads {got3} {heater.temperature_unit}, "
                                                 f"expected {exp3}"), None
        # operation ladder
        for heat, cool in itertools.product((0, 1), repeat=2):
            # (incl. readings ONE device step apart, low and high in the range: the comparison is exact in both units)
            for cur, real in ((500, 600), (600, 600), (700, 600), (270, 271), (271, 270), (680, 681), (681, 680), (719, 720),
                              (720, 719), (1000, 1001), (1001, 1000), (65534, 65535), (0, 1)):
                blk = b0
                blk = f["DisplayedTempG"].put_raw(blk, cur)
                blk = f["RealSetPointG"].put_raw(blk, real)
                blk = f["SetpointG"].put_raw(blk, 650)
                if "Heating" in fl:
                    blk = fl["Heating"].put_raw(blk, heat)
                if "CoolingDown" in fl:
                    blk = fl["CoolingDown"].put_raw(blk, cool)
                st.set_status_block(blk)
                n += 1
                h_on = "Heating" in fl and heat == 1
                c_on = "CoolingDown" in fl and cool == 1
                by_temp = "Heating" if cur < real else ("Cooling" if cur > real else "Idle")
                if "Heating" in fl and "CoolingDown" in fl:
                    exp = "Heating" if h_on else ("Cooling" if c_on else "Idle")
                elif h_on:
                    exp = "Heating"
                elif c_on:
                    exp = "Cooling"
                else:
                    exp = by_temp
                try:
                    got = heater.current_operation
                except Exception as e:  # noqa
                    return job, n, ("operation-raised", f"{e!r}"), None
                if got != exp:
                    return job, n, ("operation", f"flags present {sorted(fl)}, heating={heat} cooling={cool} current {cur} real {real}: "
                                                 f"operation {got!r}, expected {exp!r}"), None
    return job, n, None, ("flags:" + ",".join(sorted(fl)))


def run(ctx):
    evals = 0
    nontrivial = set()
    jobs = [(order, lo, min(65536, lo + 4096)) for order in (("F", "C"), ("C", "F")) for lo in range(0, 65536, 4096)]
    for (n, bad), job in zip(core.pmap(ctx, _rw_job, jobs, chunksize=1), jobs):
        evals += n
        nontrivial.add(("rw", job))
        if bad:
            ctx.violation(f"C14|accessor|{bad[0]}", f"units order {job[0]}: {bad[1]}", {"mode": "rw", "job": [list(job[0]), job[1], job[2]]})
    ctx.log(f"(a,b) all raw words x both units x both unit orders: {evals} evaluations")
    jobs = [(order, unit) for order in (("F", "C"), ("C", "F")) for unit in ("C", "F")]
    for (n, bad), job in zip(core.pmap(ctx, _decimal_job, jobs, chunksize=1), jobs):
        evals += n
        nontrivial.add(("dec", job))
        if bad:
            ctx.violation(f"C14|decimal|{bad[0]}|{job[1]}", f"units order {job[0]} unit {job[1]}: {bad[1]}", {"mode": "decimal", "job": [list(job[0]), job[1]]})
    combos = fakes.all_combinations()
    both = [c for c in combos if c[0] == "inyt" and c[1] >= 80 and c[2] >= 80][:4] or combos[:4]
    combos = combos + [c + (drop,) for c in both for drop in (("Heating",), ("CoolingDown",), ("Heating", "CoolingDown"))]
    kinds = {}
    hn = 0
    for job, n, bad, note in core.pmap(ctx, _heater_job, combos, chunksize=8):
        hn += n
        kinds[note or "violation"] = kinds.get(note or "violation", 0) + 1
        nontrivial.add(("heater", job))
        if bad:
            ctx.violation(f"C14|heater|{bad[0]}|{job[0]}", f"{job[0]} cfg {job[1]} log {job[2]} {job[3:] or ''}: {bad[1]}",
                          {"mode": "heater", "job": list(job)})
    evals += hn
    for c in combos[ctx.seed % 800:][:2]:
        ctx.sample({"heater_case": {"combination": list(c[:3]), "dropped_items": list(c[3]) if len(c) > 3 else [],
                                    "states": "2 units x 7 raw readings + 4 flag combinations x 3 temperature orders"}})
    ctx.set("heater_combinations", len(combos))
    ctx.set("heater_kinds", kinds)
    ctx.log(f"(c) {len(combos)} platform/cfg/log combinations: {kinds}")
    ctx.set("evaluations", evals)
    ctx.set("distinct_nontrivial", len(nontrivial))
    ctx.set("rule", "cases = (raw word, unit, unit order) reads and representable writes, decimals k/100 around the limits, and per "
            "pack combination the unit/limit/readings/operation-ladder states; distinct_nontrivial = distinct job partitions "
            "(each covers thousands of values)")
    ctx.set("exhaustive", True)
    ctx.sample({"raw": 684, "unit": "C", "value": 38.0, "write_back": "raw 684 exactly"})
    ctx.sample({"ladder": {"flags": ["Heating"], "heating": 0, "current_raw": 700, "real_raw": 600}, "expect": "Cooling (by temperature)"})


def replay(ctx, data):
    if data["mode"] == "rw":
        j = data["job"]
        n, bad = _rw_job((tuple(j[0]), j[1], j[2]))
        if bad:
            ctx.violation(f"C14|accessor|{bad[0]}", bad[1], data)
    elif data["mode"] == "decimal":
        j = data["job"]
        n, bad = _decimal_job((tuple(j[0]), j[1]))
        if bad:
            ctx.violation(f"C14|decimal|{bad[0]}|{j[1]}", bad[1], data)
    else:
        j = data["job"]
        job, n, bad, note = _heater_job(tuple(j[:3]) + ((tuple(j[3]),) if len(j) > 3 else ()))
        if bad:
            ctx.violation(f"C14|heater|{bad[0]}|{job[0]}", bad[1], data)
    ctx.set("evaluations", 1)
    ctx.set("distinct_nontrivial", 2)
    ctx.set("rule", "replay")
