"""C02 - pack-table items: write-then-read returns the value, no other bit changes.

E6, exhaustive per shape + per-item binding sweep, on real accessors of real table modules hosted by
real GeckoStructure / GeckoAsyncStructure objects whose set_value / async_set_value callbacks record
the emitted (pos, length, value).

 A. per geometric shape (class, type, size, bitpos, maxitems, #labels): a representative shipped item
    and synthetic twins of it at both block edges; bit-field items: ALL prior contents of the field
    (256 / 65,536) x ALL domain values; whole-field items: ALL domain values (256 / 65,536 / every
    HH:MM with H,M in 0..255 / every raw temperature word in both units) x prior contents
    {00.., FF.., AA.., 55.., seed-chosen}; booleans and numbers also in their string forms.
 B. every shipped item (~20,500): every label / both booleans / boundary numbers on three
    backgrounds (thorough: every byte value, 1,024 word values incl. all boundaries).
Oracle (reference bit-field codec built from the raw declarations, not from accessor.py): the emitted
write applied to the block makes the item read back the value; block' XOR block touches no bit
outside the item's own field; read_write None => raises and emits nothing; blocking and awaitable
paths emit identical writes.
"""
from __future__ import annotations

import random

from .. import core, lib
from ..refmodels.bitfield import Field

LEVEL = "exploration"

lib.capture_declarations()

from geckolib.driver import GeckoAsyncStructure, GeckoStructure  # noqa: E402
from geckolib.driver import accessor as amod  # noqa: E402


class Host:
    """A real structure pair (sync + async) sharing one block, recording emitted writes."""

    def __init__(self):
        self.emitted = []
        self.sync = GeckoStructure(self._rec)
        self.asyn = GeckoAsyncStructure(self._rec, self._arec)

    def _rec(self, pos, length, value):
        self.emitted.append((pos, length, value))

    async def _arec(self, pos, length, value):
        self.emitted.append((pos, length, value))

    def set_block(self, blk):
        self.sync.set_status_block(blk)
        self.asyn.set_status_block(blk)


def field_of(decl):
    return Field(decl["type"], decl["pos"], decl["bitpos"], decl["size"], decl["maxitems"], decl["items"], decl["rw"], decl["tag"])


def apply_write(block, w):
    pos, length, value = w
    if not isinstance(value, int) or not (0 <= value < (1 << (8 * length))):
        raise ValueError(f"unencodable write {w}")
    return block[:pos] + value.to_bytes(length, "big") + block[pos + length:]


def run_async(coro):
    try:
        coro.send(None)
    except StopIteration:
        return
    raise core.HarnessError("async_set_value suspended although the callback does not wait")


def temp_ref(raw, unit):
    return raw / 18.0 if unit == "C" else (raw + 320) / 10.0


def check_write(host, acc_s, acc_a, f, blk, value, expect, units=None):
    """One write of `value` on block `blk` through both paths. expect = value the item must read back.
    -> None or (class, text)"""
    host.set_block(blk)
    del host.emitted[:]
    try:
        acc_s.value = value
    except Exception as e:  # noqa
        return ("raised", f"write of {value!r} raised {e!r}")
    if len(host.emitted) != 1:
        return ("emit-count", f"write of {value!r} emitted {len(host.emitted)} device writes")
    w = host.emitted[0]
    del host.emitted[:]
    try:
        run_async(acc_a.async_set_value(value))
    except core.HarnessError:
        raise
    except Exception as e:  # noqa
        return ("async-raised", f"awaitable write of {value!r} raised {e!r}")
    if host.emitted != [w]:
        return ("paths-differ", f"blocking path emitted {w}, awaitable path {host.emitted}")
    if w[0] != f.pos or w[1] != f.width:
        return ("geometry", f"write {w} is not addressed to the item's field (pos {f.pos}, width {f.width})")
    try:
        nb = apply_write(blk, w)
    except ValueError as e:
        return ("unencodable", str(e))
    # the device write as both clients put it on the wire (GeckoPackCommandProtocolHandler.set_value): decoded by the
    # reference layout it must carry exactly this position and this many bytes of this value
    why = datagram_of(w)
    if why:
        return ("datagram", why)
    # no bit outside the field
    old_w = int.from_bytes(blk[f.pos:f.pos + f.width], "big")
    new_w = int.from_bytes(nb[f.pos:f.pos + f.width], "big")
    if (old_w ^ new_w) & ~(f.mask << f.shift):
        return ("foreign-bits", f"write of {value!r} on field word {old_w:#x} -> {new_w:#x} changes bits outside mask "
                                f"{f.mask << f.shift:#x}")
    # read back: reference decode and the accessor itself on the updated block
    host.set_block(nb)
    got_acc = acc_s.value
    if units is None:
        got_ref = f.decode(nb)
    else:
        got_ref = temp_ref(f.raw(nb), units)
    if got_ref != expect or got_acc != expect:
        return ("read-back", f"wrote {value!r} (expect {expect!r}) on field word {old_w:#x}: reference reads {got_ref!r}, "
                             f"item reads {got_acc!r}")
    return None


_DGRAM = {}


def datagram_of(w):
    """None or text: the SPACK set-value datagram the clients build for the device write w = (pos, length, value)."""
    if w in _DGRAM:
        return _DGRAM[w]
    from geckolib.driver import GeckoPackCommandProtocolHandler
    from ..peers import unframe

    pos, length, value = w
    why = None
    try:
        h = GeckoPackCommandProtocolHandler.set_value(200, 6, 9, 9, pos, length, value, parms=("10.0.0.9", 10022, b"SPA", b"IOS"))
        c = unframe(h.send_bytes)[2]
        exp = b"SPACK" + bytes([200, 6, 5 + length, 0x46, 9, 9]) + pos.to_bytes(2, "big") + value.to_bytes(length, "big")
        if c != exp:
            why = f"device write {w} goes on the wire as {c[5:]!r}, the layout requires {exp[5:]!r}"
    except Exception as e:  # noqa
        why = f"device write {w}: building the datagram raised {e!r}"
    if len(_DGRAM) < 200000:
        _DGRAM[w] = why
    return why


def domain(decl, f, full):
    """[(value to write, value expected to read back)]"""
    t = decl["type"]
    if t == "Bool":
        return [(True, True), (False, False), ("true", True), ("false", False), ("True", True), ("False", False)]
    if t == "Enum":
        out = []
        seen = set()
        for lab in decl["items"]:
            if lab in seen:
                continue
            seen.add(lab)
            out.append((lab, lab))
        return out
    if t == "Byte":
        vals = range(256) if full else (0, 1, 2, 127, 128, 254, 255)
        return [(v, v) for v in vals] + [(str(v), v) for v in (0, 7, 255)]
    if t == "Word":
        vals = range(65536) if full else (0, 1, 255, 256, 257, 32767, 32768, 65534, 65535)
        return [(v, v) for v in vals] + [(str(v), v) for v in (0, 300, 65535)]
    if t == "Time":
        hs = range(256) if full else (0, 1, 9, 10, 23, 24, 99, 100, 255)
        ms = range(256) if full else (0, 1, 9, 10, 59, 60, 99, 100, 255)
        return [(f"{h:02}:{m:02}", f"{h:02}:{m:02}") for h in hs for m in ms]
    raise core.HarnessError(f"unknown type {t}")


def priors(f, seed):
    rnd = random.Random(seed * 7919 + f.pos)
    n = f.width
    return [b"\x00" * n, b"\xff" * n, b"\xaa" * n, b"\x55" * n, bytes(rnd.randrange(256) for _ in range(n))]


def background(kind, seed=0):
    if kind == 0:
        return b"\x00" * 1024
    if kind == 1:
        return b"\xff" * 1024
    rnd = random.Random(1234 + seed)
    return bytes(rnd.randrange(256) for _ in range(1024))


# ---- A: per shape ---------------------------------------------------------------------------------
def shape_key(d):
    return (d["cls"], d["type"], d["size"], d["bitpos"], d["maxitems"], len(d["items"]) if d["items"] else 0)


def _twin(acc_cls, struct, d, pos):
    """A synthetic item with the same declaration at another position (block edges)."""
    if d["cls"] in ("GeckoByteStructAccessor", "GeckoWordStructAccessor", "GeckoTimeStructAccessor", "GeckoTempStructAccessor"):
        return acc_cls(struct, d["tag"], pos, d["rw"] or "ALL")
    if d["cls"] == "GeckoBoolStructAccessor":
        return acc_cls(struct, d["tag"], pos, d["bitpos"], d["rw"] or "ALL")
    return acc_cls(struct, d["tag"], pos, d["bitpos"], d["items"], d["size"], d["maxitems"], d["rw"] or "ALL")


def _shape_job(job):
    d, seed = job
    host = Host()
    cls = getattr(amod, d["cls"])
    n = 0
    is_temp = d["cls"] == "GeckoTempStructAccessor"
    width = Field(d["type"], 0, d["bitpos"], d["size"], d["maxitems"]).width
    for pos in sorted({d["pos"], 0, 1024 - width, 511}):
        dd = dict(d, pos=pos, rw=d["rw"] or "ALL")
        f = field_of(dd)
        acc_s = _twin(cls, host.sync, dd, pos)
        acc_a = _twin(cls, host.asyn, dd, pos)
        units_acc = None
        if is_temp:
            upos = 600 if pos < 500 else 100
            for st in (host.sync, host.asyn):
                st.accessors = {"TempUnits": amod.GeckoEnumStructAccessor(st, "TempUnits", upos, None, ["F", "C"], None, None, "ALL")}
        base = background(2, seed)
        if f.bitpos is not None:
            dom = domain(dd, f, True)
            for prior in range(1 << (8 * f.width)):
                blk = base[:pos] + prior.to_bytes(f.width, "big") + base[pos + f.width:]
                for v, exp in dom:
                    n += 1
                    why = check_write(host, acc_s, acc_a, f, blk, v, exp)
                    if why:
                        return n, (why, dd, blk[pos:pos + f.width].hex(), v)
        elif is_temp:
            for unit_raw, unit in ((0, "F"), (1, "C")):
                for prior in priors(f, seed)[:3]:
                    blk = base[:pos] + prior + base[pos + f.width:]
                    blk = blk[:upos] + bytes([unit_raw]) + blk[upos + 1:]
                    for raw in range(65536):
                        n += 1
                        v = temp_ref(raw, unit)
                        why = check_write(host, acc_s, acc_a, f, blk, v, v, units=unit)
                        if why:
                            return n, (why, dd, f"unit={unit} raw={raw}", v)
        else:
            dom = domain(dd, f, True)
            for prior in priors(f, seed):
                blk = base[:pos] + prior + base[pos + f.width:]
                for v, exp in dom:
                    n += 1
                    why = check_write(host, acc_s, acc_a, f, blk, v, exp)
                    if why:
                        return n, (why, dd, prior.hex(), v)
    return n, None


# ---- B: per item --------------------------------------------------------------------------------
def _item_job(job):
    modname, kind, full, seed = job
    host = Host()
    mod_obj_s, acc_s_all = lib.table_accessors(modname, kind, host.sync)
    _, acc_a_all = lib.table_accessors(modname, kind, host.asyn)
    # temperature items need the unit item: borrow it from a config table of the same platform
    need_units = any(a._decl["cls"] == "GeckoTempStructAccessor" for a in acc_s_all.values())
    units = None
    if need_units:
        if "TempUnits" in acc_s_all:
            units = (acc_s_all["TempUnits"], acc_a_all["TempUnits"])
        else:
            plat = modname.rsplit("-log-", 1)[0] if kind == "log" else modname.rsplit("-cfg-", 1)[0]
            cfgs = [m for m, k in lib.table_modules() if k == "cfg" and m.rsplit("-cfg-", 1)[0] == plat]
            for c in cfgs:
                _, cs = lib.table_accessors(c, "cfg", host.sync)
                _, ca = lib.table_accessors(c, "cfg", host.asyn)
                if "TempUnits" in cs:
                    units = (cs["TempUnits"], ca["TempUnits"])
                    break
        if units is None:
            return 0, 0, [(("no-units", f"{modname}: temperature items but no TempUnits item on the platform"), None, None, None)], 0
        host.sync.accessors = dict(acc_s_all, TempUnits=units[0])
        host.asyn.accessors = dict(acc_a_all, TempUnits=units[1])
    n = 0
    items = 0
    bad = []
    refused = 0
    for tag, a_s in acc_s_all.items():
        a_a = acc_a_all[tag]
        d = a_s._decl
        f = field_of(d)
        items += 1
        is_temp = d["cls"] == "GeckoTempStructAccessor"
        if d["rw"] is None:
            # must refuse and emit nothing, on both paths
            host.set_block(background(2, seed))
            del host.emitted[:]
            v = domain(d, f, False)[0][0] if not is_temp else 20.0
            ok = 0
            try:
                a_s.value = v
            except Exception:
                ok += 1
            try:
                run_async(a_a.async_set_value(v))
            except core.HarnessError:
                raise
            except Exception:
                ok += 1
            n += 1
            if ok != 2 or host.emitted:
                bad.append((("not-refused", f"read-only item accepted a write ({ok}/2 paths refused, emitted {host.emitted})"), d, None, v))
            else:
                refused += 1
            continue
        for bg in range(3):
            blk = background(bg, seed)
            if is_temp:
                uf = field_of(units[0]._decl)
                for unit_raw, unit in enumerate(units[0]._decl["items"][:2]):
                    b2 = uf.put_raw(blk, unit_raw)
                    if uf.pos <= f.pos < uf.pos + uf.width:
                        continue
                    raws = range(0, 65536, 1 if full and bg == 2 else 257) if full else (0, 1, 17, 18, 270, 540, 720, 1040, 65535)
                    for raw in raws:
                        n += 1
                        v = temp_ref(raw, unit)
                        why = check_write(host, a_s, a_a, f, b2, v, v, units=unit)
                        if why:
                            bad.append((why, d, f"bg={bg} unit={unit} raw={raw}", v))
                            break
                continue
            dom = domain(d, f, full and d["type"] in ("Byte",))
            if full and d["type"] == "Word":
                dom = [(v, v) for v in sorted(set(list(range(0, 65536, 64)) + [1, 255, 256, 257, 32767, 32768, 65535]))]
            for v, exp in dom:
                n += 1
                why = check_write(host, a_s, a_a, f, blk, v, exp)
                if why:
                    bad.append((why, d, f"bg={bg}", v))
                    break
            if bad and bad[-1][1] is d:
                break
    return n, items, bad, refused


def _connected_spa_job(_):
    """The blocking setter on a really CONNECTED async spa (accessor.value = x -> GeckoAsyncSpa._on_set_value): every
    blocking write puts its own device write on the wire, also when several are made with no await between them."""
    from . import c01
    from ..peers import unframe, SPA_ADDR

    lib.reset_library()
    rig = c01.ARig()
    spa = rig.spa
    rig.peer.set_block(rig.block_at_connect)
    spa.struct.set_status_block(rig.block_at_connect)
    acc = spa.accessors
    writable = [a for a in acc.values() if a._decl["rw"] is not None and a._decl["type"] in ("Enum", "Byte", "Word", "Bool")
                and a.pos + a.length <= 1024][:40]
    bad = []
    n = 0

    def value_for(a):
        d = a._decl
        if d["type"] == "Enum":
            cur = a.value
            return next((x for x in d["items"] if x not in ("", cur)), d["items"][0])
        if d["type"] == "Bool":
            return not bool(a.value)
        return (int(a.value) + 1) % 200

    groups = [writable[i:i + k] for k in (1, 2, 3) for i in range(0, min(len(writable), 12), k)]
    for grp in groups:
        if len({(a.pos, a._decl["bitpos"]) for a in grp}) != len(grp) or len({a.pos for a in grp}) != len(grp):
            continue
        mark = len(rig.net.sent)
        spa._last_ping = rig.loop.time()  # the rig cancelled the ping loop: the harness stands in for the answered pings
        exp = []
        h = Host()
        h.set_block(spa.struct.status_block)
        with rig.loop.running():
            for a in grp:
                v = value_for(a)
                del h.emitted[:]
                twin = _twin_of(a, h.sync)
                twin.value = v
                exp.append(h.emitted[0])
                a.value = v          # blocking setter, no await in between
        rig.loop.run_for(4.0)
        n += 1
        got = []
        for (tm, src, dst, data) in rig.net.sent[mark:]:
            if dst == SPA_ADDR:
                p = unframe(data)
                if p and p[2].startswith(b"SPACK") and p[2][8] == 0x46:
                    c = p[2]
                    ln = c[7] - 5
                    got.append((int.from_bytes(c[11:13], "big"), ln, int.from_bytes(c[13:13 + ln], "big")))
        if sorted(got) != sorted(exp):
            bad.append(("blocking-on-async-spa", f"{len(grp)} blocking write(s) to {[a.tag for a in grp]} on a connected async spa with no await "
                                                 f"between them: device writes on the wire {got}, expected {exp}"))
            break
    rig.close()
    return n, bad


def _twin_of(a, struct):
    d = a._decl
    cls = getattr(amod, d["cls"])
    if d["cls"] == "GeckoEnumStructAccessor":
        return cls(struct, d["tag"], d["pos"], d["bitpos"], d["items"], d["size"], d["maxitems"], d["rw"])
    if d["cls"] == "GeckoBoolStructAccessor":
        return cls(struct, d["tag"], d["pos"], d["bitpos"], d["rw"])
    return cls(struct, d["tag"], d["pos"], d["rw"])


def _two_spas_job(combo):
    """Two spas of the same type in one process (or a new spa object after a re-connect): a write through the SECOND
    structure's items merges with the second structure's block and goes out through the second structure's sink; the first
    is not involved.  Judged against a third structure whose accessors come straight from the table classes."""
    from .. import fakes

    plat, cfg, log = combo
    bad, n = [], 0
    for asyn in (True, False):
        first, second = fakes.FakeSpa(asyn).load(plat, cfg, log), fakes.FakeSpa(asyn).load(plat, cfg, log)
        ref = fakes.FakeSpa(asyn)
        ref.struct.accessors = dict(lib.pack_module(f"{plat}-cfg-{cfg}").GeckoConfigStruct(ref.struct).accessors,
                                    **lib.pack_module(f"{plat}-log-{log}").GeckoLogStruct(ref.struct).accessors)
        first.struct.set_status_block(bytes([0xFF]) * 1024)
        blk2 = bytes((i * 37 + 11) % 256 for i in range(1024))
        second.struct.set_status_block(blk2)
        ref.struct.set_status_block(blk2)
        which = "awaitable" if asyn else "blocking"
        for tag, a in second.accessors.items():
            if getattr(a, "read_write", None) is None or a.type not in ("Bool", "Enum", "Byte", "Word"):
                continue
            if a.type == "Enum" and not a.items:
                continue
            v = {"Bool": True, "Byte": 5, "Word": 300}.get(a.type) if a.type != "Enum" else a.items[-1]
            n += 1
            for spa in (first, second, ref):
                del spa.commands[:]
            try:
                a.value = v
                ref.accessors[tag].value = v
            except Exception as e:  # noqa
                bad.append(("two-spas|raised", f"{plat} cfg {cfg} log {log} {which}: writing {tag}={v!r} on the second structure raised {e!r}"))
                break
            if first.commands or second.commands != ref.commands:
                bad.append(("two-spas", f"{plat} cfg {cfg} log {log} {which}: {tag}={v!r} written through the second of two structures of the "
                                        f"same pack: first spa's sink got {first.commands}, second's {second.commands}, a structure on "
                                        f"its own emits {ref.commands}"))
                break
            if a.value != ref.accessors[tag].value:
                bad.append(("two-spas", f"{plat} cfg {cfg} log {log} {which}: {tag} read through the second structure gives {a.value!r}, "
                                        f"its block decodes to {ref.accessors[tag].value!r}"))
                break
    return n, bad


def run(ctx):
    host = Host()
    shapes = {}
    ro_shapes = set()
    nitems = 0
    for m, k in lib.table_modules():
        _, acc = lib.table_accessors(m, k, host.sync)
        for tag, a in acc.items():
            nitems += 1
            d = dict(a._decl)
            d["module"] = m
            if d["rw"] is None:
                ro_shapes.add(shape_key(d))
                continue  # a shape is write-tested only if some shipped item of that shape is writable
            shapes.setdefault(shape_key(d), d)
    ctx.set("items_total", nitems)
    ctx.set("shapes", len(shapes))
    ctx.set("shapes_only_read_only", len(ro_shapes - set(shapes)))
    evals = 0
    nontrivial = set()
    jobs = [(d, ctx.seed) for d in shapes.values()]
    for (n, bad), (d, _) in zip(core.pmap(ctx, _shape_job, jobs, chunksize=1), jobs):
        evals += n
        nontrivial.add(("shape", shape_key(d)))
        if bad:
            why, dd, prior, v = bad
            ctx.violation(f"C02|shape|{why[0]}|{shape_key(d)}",
                          f"shape {shape_key(d)} (e.g. {d['module']}:{d['tag']}) at pos {dd['pos']} prior {prior} value {v!r}: {why[1]}",
                          {"mode": "shape", "decl": {k: x for k, x in d.items()}, "seed": ctx.seed})
    ctx.set("shape_evaluations", evals)
    for d, _ in jobs[ctx.seed % len(jobs):][:2]:
        ctx.sample({"shape_case": {"module": d["module"], "item": d["tag"], "declaration": [d["cls"], d["type"], d["pos"], d["bitpos"], d["size"], d["maxitems"], d["rw"]],
                                   "labels": (d["items"] or [])[:6], "enumerated": "all prior field contents x all domain values, positions {shipped, 0, 511, end}"}})
    ctx.log(f"A: {len(shapes)} shapes exhaustively: {evals} writes")
    full = not ctx.quick
    jobs = [(m, k, full, ctx.seed) for m, k in lib.table_modules()]
    ie = 0
    icount = 0
    refused = 0
    for (n, items, bad, ref), job in zip(core.pmap(ctx, _item_job, jobs, chunksize=1), jobs):
        ie += n
        icount += items
        refused += ref
        nontrivial.update(("item", job[0], i) for i in range(items))
        for why, d, where, v in bad:
            tag = d["tag"] if d else "-"
            ctx.violation(f"C02|item|{why[0]}|{job[0]}:{tag}", f"{job[0]}:{tag} {where} value {v!r}: {why[1]}",
                          {"mode": "item", "module": job[0], "kind": job[1], "full": full, "seed": ctx.seed})
    evals += ie
    ctx.set("item_evaluations", ie)
    ctx.set("items_checked", icount)
    ctx.set("read_only_items_refusing", refused)
    ctx.log(f"B: {icount} items in {len(jobs)} tables: {ie} writes, {refused} read-only items refuse")
    for (n_, bad_) in core.pmap(ctx, _connected_spa_job, [0], chunksize=1):
        evals += n_
        for cls_, text_ in bad_:
            ctx.violation(f"C02|{cls_}", text_, {"mode": "connected-spa"})
    nontrivial.add("connected-spa")
    plats_ = lib.platforms()
    tcombos = [(p_, v_["cfg"][-1], v_["log"][-1]) for p_, v_ in plats_.items() if v_["cfg"] and v_["log"]]
    for (n_, bad_) in core.pmap(ctx, _two_spas_job, tcombos, chunksize=1):
        evals += n_
        for cls_, text_ in bad_:
            ctx.violation(f"C02|{cls_}", text_, {"mode": "two-spas"})
    ctx.set("two_structures_of_one_pack_writes", sum(1 for _ in tcombos))
    ctx.set("evaluations", evals)
    ctx.set("distinct_nontrivial", len(nontrivial))
    ctx.set("rule", "cases = (item or shape twin, prior field contents, value) writes through both paths; distinct_nontrivial = "
            "distinct geometric shapes + distinct shipped items exercised (every one of them performs >=1 write or refusal)")
    ctx.set("exhaustive", True)
    ctx.sample({"shape": ["GeckoEnumStructAccessor", "Enum", 2, 12, 4, 3], "prior_field": "all 65536 words", "values": "all labels",
                "oracle": "write applied -> reads back; XOR confined to mask<<bitpos; sync==async"})
    ctx.assume("positions: the accessor uses pos only as a slice offset - checked by running every shape at its shipped position, "
               "both block edges and the middle; background bytes outside the field: one seed-chosen pattern per run (VERIF_SEED)")
    ctx.assume("temperature domain = the floats read back from every raw word in both units (representable values; see C14)")


def replay(ctx, data):
    if data.get("mode") == "two-spas":
        plats_ = lib.platforms()
        for p_, v_ in plats_.items():
            if v_["cfg"] and v_["log"]:
                for cls_, text_ in _two_spas_job((p_, v_["cfg"][-1], v_["log"][-1]))[1]:
                    ctx.violation(f"C02|{cls_}", text_, data)
        ctx.set("evaluations", 1)
        ctx.set("distinct_nontrivial", 2)
        ctx.set("rule", "replay")
        return
    if data.get("mode") == "connected-spa":
        n_, bad_ = _connected_spa_job(0)
        for cls_, text_ in bad_:
            ctx.violation(f"C02|{cls_}", text_, data)
        ctx.set("evaluations", 1)
        ctx.set("distinct_nontrivial", 2)
        ctx.set("rule", "replay")
        return
    if data["mode"] == "shape":
        n, bad = _shape_job((data["decl"], data.get("seed", 0)))
        if bad:
            why, dd, prior, v = bad
            ctx.violation(f"C02|shape|{why[0]}|{shape_key(data['decl'])}", why[1], data)
    else:
        n, items, bad, ref = _item_job((data["module"], data["kind"], data["full"], data.get("seed", 0)))
        for why, d, where, v in bad:
            ctx.violation(f"C02|item|{why[0]}|{data['module']}:{d['tag'] if d else '-'}", why[1], data)
    ctx.set("evaluations", 1)
    ctx.set("distinct_nontrivial", 2)
    ctx.set("rule", "replay")
