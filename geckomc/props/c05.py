"""C05 - partial updates are applied exactly once, in arrival order, and acknowledged.

Seams: async  = really connected GeckoAsyncSpa (real consumer tasks) on VLoop/VNet;
       threaded = really connected blocking GeckoSpa on the stepped engine.
Events (alphabet, simplest first) are framed STATP datagrams arriving from the spa's address and
REFRESH (the client's real log-range struct.get / refresh() served by the real simulator whose
block the same history changed or reverted), plus a STATP landing in the middle of a refresh.
ALL histories up to a depth are run, each on fresh objects (stateless enumeration); a reference
block is updated sequentially; after every event the client block must equal it and exactly one
STATQ (sequence 1..191, addressed back) must have been sent per STATP.
"""
from __future__ import annotations

import itertools
import struct

from .. import core, lib, stepped
from ..peers import SPA_ADDR, SPA_ID, frame, unframe
from ..vloop import Chooser
from .c01 import ARig, CLIENT_ID

LEVEL = "model_checking"

from geckolib.driver import GeckoStatusBlockProtocolHandler  # noqa: E402

A, B, C = b"\x11\x22", b"\xa5\x5a", b"\x7e\x01"


def _positions(log_begin):
    p = log_begin + 9
    return p, p + 1, log_begin + 40


_LOG_BEGIN = [256]


def alphabet(p, p1, q):
    return [
        ("P", []),
        ("P", [(p, A)]),
        ("P", [(p, B)]),
        ("P", [(p1, A)]),
        ("P", [(q, A)]),
        ("P", [(p, A), (p, B)]),
        ("P", [(p, B), (q, B)]),
        ("P", [(p, A), (p1, B), (q, A)]),
        ("P", [(p, A), (p1, B), (p, C)]),
        ("P1", [(p, b"\x33")]),
        ("SPA+REFRESH", [(p, C)]),
        ("REFRESH", []),
        ("P-MID-REFRESH", [(p, B)]),
        ("PP", [[(p, A)], [(p, B)]]),  # two messages back to back in one polling interval
        # positions OUTSIDE the window the periodic refresh re-reads: the configuration section, and the word that straddles
        # the start of the log section
        ("P", [(2, A), (17, B)]),
        ("P", [(_LOG_BEGIN[0] - 1, C), (40, A)]),
    ]


def alphabet_async_extra(p, p1, q):
    return [("PP-DURING-REQUEST", [[(p, A)], [(q, B)]]), ("PP-DURING-REQUEST", [[(p, C)], [(p, A)], [(p1, B)]])]


def statp(records):
    return b"STATP" + bytes([len(records)]) + b"".join(struct.pack(">H", pos) + d for pos, d in records)


def apply_ref(block, records):
    for pos, d in records:
        block = block[:pos] + d + block[pos + len(d):]
    return block


# ---- async -------------------------------------------------------------------------------
class A5(ARig):
    def __init__(self, early=None):
        super().__init__(early=early)
        # leave the connected block alone (C01 rig swapped in pattern blocks): use them as is
        self.acks = []
        self.mark = len(self.net.sent)

    def new_acks(self):
        out = []
        for (t, src, dst, data) in self.net.sent[self.mark:]:
            if src == self.client_addr:
                p = unframe(data)
                if p and p[2].startswith(b"STATQ"):
                    out.append((p[0], p[1], p[2], dst))
        self.mark = len(self.net.sent)
        return out

    def inject_statp(self, records, delay=0.0):
        self.net.inject(self.spa._transport, frame(SPA_ID, CLIENT_ID, statp(records)), SPA_ADDR, delay=delay)

    def refresh(self, mid=None):
        lc = self.spa.log_class
        proto = self.spa._protocol

        def factory():
            return GeckoStatusBlockProtocolHandler.request(
                proto.get_and_increment_sequence_counter(False), lc.begin, lc.end, parms=self.spa.sendparms)

        with self.loop.running():
            t = self.loop.create_task(self.spa.struct.get(proto, self.spa._get_status_block_handler_func),
                                      name="HARNESS:refresh")
        if mid is not None:
            self.loop.run_for(0.45)
            mid()
        self.loop.run_for(60.0, t.done)
        return t.done() and t.exception() is None and t.result() is True


def _early_check(injected, records, block_at_connect, peer_block, acks):
    """A partial update that arrived during the handshake: after the connection is up the block is the spa's block,
    with or without that update on top (it may have landed before or after the initial full transfer); one STATQ."""
    if not injected:
        return None
    if block_at_connect not in (peer_block, apply_ref(peer_block, records)):
        return ("block", "after a handshake with a partial update in it the client block is neither the spa's block nor "
                         "the spa's block with that update applied")
    if acks != 1:
        return ("ack-count", f"{acks} STATQ for the partial update that arrived during the handshake")
    return None


def _run_async(history, early=None):
    rig = A5(early=(early[0][0], frame(SPA_ID, CLIENT_ID, statp(early[1])), early[0][1]) if early else None)
    lc = rig.spa.log_class
    p, p1, q = _positions(lc.begin)
    ref = rig.spa.struct.status_block
    spa_blk = rig.peer.block
    why = None
    step = 0
    if early:
        n_ack = sum(1 for (t, src, dst, data) in rig.net.sent[:rig.mark]
                    if src == rig.client_addr and (unframe(data) or (0, 0, b""))[2].startswith(b"STATQ"))
        why = _early_check(rig.early_injected, early[1], rig.block_at_connect, rig.peer_block_at_connect, n_ack)
    for step, (kind, arg) in enumerate(history if why is None else []):
        n_statp = 0
        alts = None
        if kind in ("P", "P1"):
            rig.inject_statp(arg)
            ref = apply_ref(ref, arg)
            n_statp = 1
            rig.loop.run_for(0.7)
        elif kind == "PP":
            for recs in arg:
                rig.inject_statp(recs)
                ref = apply_ref(ref, recs)
            n_statp = len(arg)
            rig.loop.run_for(1.2)
        elif kind == "BURST":
            for recs in arg:
                rig.inject_statp(recs)
                ref = apply_ref(ref, recs)
            n_statp = len(arg)
            rig.loop.run_for(len(arg) * 0.25 + 3.0)
        elif kind == "PP-DURING-REQUEST":
            # a request of the client's own is outstanding (its answer is lost: it waits out the time-out holding the
            # request lock) while partial updates keep arriving
            rig.spa._last_ping = rig.loop.time()
            lost = []

            def drop(data, src):
                if b"GETWC" in data and not lost:
                    lost.append(1)
                    return True
                return False

            rig.peer.drop_request = drop
            with rig.loop.running():
                rt = rig.loop.create_task(rig.spa.async_get_watercare(), name="HARNESS:request")
            rig.loop.run_for(0.3)
            for k, recs in enumerate(arg):
                rig.inject_statp(recs, delay=0.3 * k)
                ref = apply_ref(ref, recs)
            n_statp = len(arg)
            rig.loop.run_for(12.0, rt.done)
            rig.loop.run_for(1.0)
            rig.peer.drop_request = None
        elif kind == "QUIET":
            # nothing changes on the spa for a long time (no partial update for `arg` seconds; pings / refreshes go on);
            # whatever the periodic refreshes installed meanwhile is the new baseline
            rig.loop.run_for(arg)
            ref = rig.spa.struct.status_block
        elif kind == "RECONNECT":
            # the SAME GeckoAsyncSpa object is disconnected and connected again (what a client that manages the spa
            # object itself does); the spa serves its current block in the new handshake
            rig.peer.set_block(spa_blk)
            with rig.loop.running():
                t = rig.loop.create_task(rig.spa.disconnect(), name="HARNESS:disconnect")
            rig.loop.run_for(10.0, t.done)
            with rig.loop.running():
                t = rig.loop.create_task(rig.spa.connect(), name="HARNESS:connect")
            rig.loop.run_for(90.0, t.done)
            if not t.done() or t.exception() is not None or not rig.spa.is_connected:
                why = ("reconnect", f"second connect() on the same spa object failed: {t!r}")
                break
            for task in rig.tasks._tasks:
                if task.get_name() in ("SPA:Ping loop", "SPA:Refresh loop") and not task.done():
                    task.cancel()
            rig.loop.run_for(0.5)
            rig.client_addr = rig.spa._transport.addr
            rig.mark = len(rig.net.sent)
            ref = spa_blk
            rig.loop.run_for(0.3)
        elif kind in ("SPA+REFRESH", "REFRESH"):
            spa_blk = apply_ref(spa_blk, arg)
            rig.peer.set_block(spa_blk)
            ok = rig.refresh()
            if not ok:
                why = ("refresh", "fault-free refresh failed")
                break
            n = min(1024, lc.begin + -(-lc.end // 39) * 39) - lc.begin
            ref = ref[:lc.begin] + spa_blk[lc.begin:lc.begin + n] + ref[lc.begin + n:]
            rig.loop.run_for(0.3)
        elif kind == "P-MID-REFRESH":
            ok = rig.refresh(mid=lambda: rig.inject_statp(arg))
            if not ok:
                why = ("refresh", "fault-free refresh with a partial update in the middle failed")
                break
            n = min(1024, lc.begin + -(-lc.end // 39) * 39) - lc.begin
            r1 = ref[:lc.begin] + spa_blk[lc.begin:lc.begin + n] + ref[lc.begin + n:]
            alts = (apply_ref(r1, arg), r1)  # partial after / before the refresh install
            n_statp = 1
            rig.loop.run_for(0.7)
        blk = rig.spa.struct.status_block
        if alts is not None:
            if blk not in alts:
                why = ("block", "client block is neither refresh-then-partial nor partial-then-refresh")
                break
            ref = blk
        elif blk != ref:
            diff = [i for i in range(1024) if blk[i] != ref[i]][:6]
            why = ("block", f"client block differs from the sequential reference at {diff}: "
                            f"{[blk[i] for i in diff]} vs {[ref[i] for i in diff]}")
            break
        acks = rig.new_acks()
        if len(acks) != n_statp:
            why = ("ack-count", f"{len(acks)} STATQ for {n_statp} STATP")
            break
        for (src, dst, content, dest) in acks:
            if len(content) != 6 or not (1 <= content[5] <= 191):
                why = ("ack-seq", f"STATQ {content!r} sequence not in 1..191")
            elif src != CLIENT_ID or dst != SPA_ID or dest != SPA_ADDR:
                why = ("ack-addr", f"STATQ addressed src={src} dst={dst} to {dest}")
        if why:
            break
    errs = [r for r in lib.LOG.records]
    exc = list(rig.loop.exceptions)
    end = core.digest(rig.spa.struct.status_block.hex())
    rig.close()
    if why is None and (errs or exc):
        why = ("engine", f"errors logged: {errs[:2]} {exc[:2]}")
    return why, step, end


# ---- threaded ----------------------------------------------------------------------------
def _run_threaded(history, early=None):
    rig = stepped.TRig()
    if not rig.connect(early=(early[0][0], frame(SPA_ID, CLIENT_ID, statp(early[1])), early[0][1]) if early else None):
        raise core.HarnessError("C05: threaded client did not connect")
    rig.run_for(0.5)
    lc = rig.spa.new_log_class
    p, p1, q = _positions(lc.begin)
    ref = rig.spa.struct.status_block
    spa_blk = rig.peer.block
    mark = len(rig.client_sent)
    why = None
    step = 0

    def new_acks():
        nonlocal mark
        out = []
        for (t, data, dest) in rig.client_sent[mark:]:
            pp = unframe(data)
            if pp and pp[2].startswith(b"STATQ"):
                out.append((pp[0], pp[1], pp[2], dest))
        mark = len(rig.client_sent)
        return out

    def refresh():
        with stepped.patched_clock(rig.world.clock):
            rig.spa.refresh()
        req = rig.spa._receive_handlers[-1]
        rig.run_for(30.0, pred=lambda: req not in rig.spa._receive_handlers)
        return req not in rig.spa._receive_handlers

    if early:
        n_ack = sum(1 for (t, data, dest) in rig.client_sent[:mark] if (unframe(data) or (0, 0, b""))[2].startswith(b"STATQ"))
        why = _early_check(rig.early_injected, early[1], rig.spa.struct.status_block, rig.peer.block, n_ack)
    for step, (kind, arg) in enumerate(history if why is None else []):
        n_statp = 0
        alts = None
        if kind in ("P", "P1"):
            rig.inject(frame(SPA_ID, CLIENT_ID, statp(arg)))
            ref = apply_ref(ref, arg)
            n_statp = 1
            rig.run_for(0.5)
        elif kind == "PP":
            for recs in arg:
                rig.inject(frame(SPA_ID, CLIENT_ID, statp(recs)))
                ref = apply_ref(ref, recs)
            n_statp = len(arg)
            rig.run_for(0.8)
        elif kind == "BURST":
            for recs in arg:
                rig.inject(frame(SPA_ID, CLIENT_ID, statp(recs)))
                ref = apply_ref(ref, recs)
            n_statp = len(arg)
            rig.run_for(len(arg) * 0.25 + 3.0)
        elif kind == "QUIET":
            rig.run_for(arg)
            ref = rig.spa.struct.status_block
        elif kind in ("SPA+REFRESH", "REFRESH", "P-MID-REFRESH"):
            if kind != "P-MID-REFRESH":
                spa_blk = apply_ref(spa_blk, arg)
                rig.peer.set_block(spa_blk)
            if kind == "P-MID-REFRESH":
                rig.world.at(rig.world.now() + 0.2, lambda: rig.world.net.send(
                    SPA_ADDR, rig.CLIENT_ADDR, frame(SPA_ID, CLIENT_ID, statp(arg))))
                n_statp = 1
            if not refresh():
                why = ("refresh", "fault-free refresh did not complete")
                break
            n = min(1024, lc.begin + -(-lc.end // 39) * 39) - lc.begin
            r1 = ref[:lc.begin] + spa_blk[lc.begin:lc.begin + n] + ref[lc.begin + n:]
            if kind == "P-MID-REFRESH":
                alts = (apply_ref(r1, arg), r1)
            else:
                ref = r1
            rig.run_for(0.5)
        blk = rig.spa.struct.status_block
        if alts is not None:
            if blk not in alts:
                why = ("block", "client block is neither refresh-then-partial nor partial-then-refresh")
                break
            ref = blk
        elif blk != ref:
            diff = [i for i in range(1024) if blk[i] != ref[i]][:6]
            why = ("block", f"client block differs from the sequential reference at {diff}: "
                            f"{[blk[i] for i in diff]} vs {[ref[i] for i in diff]}")
            break
        acks = new_acks()
        if len(acks) != n_statp:
            why = ("ack-count", f"{len(acks)} STATQ for {n_statp} STATP")
            break
        for (src, dst, content, dest) in acks:
            if len(content) != 6 or not (1 <= content[5] <= 191):
                why = ("ack-seq", f"STATQ {content!r} sequence not in 1..191")
            elif src != CLIENT_ID or dst != SPA_ID or (dest[0], dest[1]) != SPA_ADDR:
                why = ("ack-addr", f"STATQ addressed src={src} dst={dst} to {dest}")
        if why:
            break
    errs = list(lib.LOG.records)
    end = core.digest(rig.spa.struct.status_block.hex())
    if why is None and errs:
        why = ("engine", f"errors logged: {errs[:2]}")
    return why, step, end


def _job(job):
    kind, idxs = job[0], job[1]
    k = job[2] if len(job) > 2 else None
    lib.reset_library()
    # positions depend on the log range of the default snapshot's tables; compute once per run
    alpha = _ALPHA[kind]
    hist = [alpha[i] for i in idxs]
    if k:
        k = tuple(k)
    early = (k, [(_POS["ppq"][0], A)]) if k else None
    why, step, end = (_run_async if kind == "async" else _run_threaded)(hist, early=early)
    if why:
        names = [alpha[i][0] + (str(len(alpha[i][1])) if alpha[i][0].startswith("P") else "") for i in idxs]
        ev = alpha[idxs[step]][0] if idxs else "EARLY"
        pre = f"a partial update [(p,A)] arriving {k[1]} s after the client's datagram no. {k[0]} of the handshake, then " if k else ""
        return (f"C05|{kind}|{why[0]}|{'early|' if k else ''}event={ev}",
                f"{kind} client, {pre}history {names} (alphabet indices {list(idxs)}), at step {step}: {why[1]}",
                {"kind": kind, "history": list(idxs), "early": k}), end
    return None, end


_ALPHA = {}
_POS = {}


def _handshake_sends(kind):
    """Number of client datagrams in a fault-free handshake (measured on the tree under test)."""
    lib.reset_library()
    if kind == "async":
        r = ARig()
        n = sum(1 for x in r.net.sent[:r.connect_mark] if x[2] == SPA_ADDR)
        r.close()
        return n
    t = stepped.TRig()
    if not t.connect():
        raise core.HarnessError("C05: threaded client did not connect")
    return len(t.client_sent)


def all_messages():
    """Every record list of length 0..3 over positions {p,p+1,q} x values {A,B}, plus length-3
    lists whose last record uses a third value (so last-writer-wins is visible)."""
    p, p1, q = _POS["ppq"]
    recs = [(pos, v) for pos in (p, p1, q) for v in (A, B)]
    out = [[]]
    for n in (1, 2, 3):
        for t in itertools.product(recs, repeat=n):
            out.append(list(t))
    for a, b in itertools.product(recs, repeat=2):
        for pos in (p, p1, q):
            out.append([a, b, (pos, C)])
    return out


def _msg_job(job):
    kind, lo, hi, pre = job
    lib.reset_library()
    msgs = all_messages()[lo:hi]
    bad = []
    ends = set()
    for m in msgs:
        hist = ([("SPA+REFRESH", [(_POS["ppq"][0], C)])] if pre else []) + [("P", m)]
        why, step, end = (_run_async if kind == "async" else _run_threaded)(hist)
        ends.add(end)
        if why:
            bad.append((f"C05|{kind}|{why[0]}|single-message",
                        f"{kind} client, one STATP with records {[(pos, d.hex()) for pos, d in m]}"
                        f"{' after a refresh' if pre else ''}: {why[1]}",
                        {"kind": kind, "message": [[pos, d] for pos, d in m], "pre": pre}))
            break
    return len(msgs), bad, ends


def _big_job(job):
    """One partial update carrying n change records (the count is one byte: up to 255)."""
    kind, n = job
    _init_alpha()
    lib.reset_library()
    p, p1, q = _POS["ppq"]
    recs = [((p if i % 3 == 0 else (q if i % 3 == 1 else 2 + (i % 200))), bytes([i % 256, (i * 5) % 256])) for i in range(n)]
    why, step, end = (_run_async if kind == "async" else _run_threaded)([("P", recs)])
    if why:
        return (f"C05|{kind}|{why[0]}|records={n}", f"{kind} client, one partial update with {n} change records: {why[1]}",
                {"kind": kind, "big": n}), end
    return None, end


def _burst_job(job):
    kind, n, pre = job
    _init_alpha()
    lib.reset_library()
    p, p1, q = _POS["ppq"]
    msgs = [[(p if i % 2 else q, bytes([i % 256, (i * 7) % 256]))] + ([(p1, bytes([i % 251, 1]))] if i % 3 == 0 else []) for i in range(n)]
    hist = ([("P-MID-REFRESH", [(p, B)])] if pre == "refresh" else []) + [("BURST", msgs)]
    why, step, end = (_run_async if kind == "async" else _run_threaded)(hist)
    if why:
        return (f"C05|{kind}|{why[0]}|burst", f"{kind} client, {n} partial updates arriving back to back"
                                               f"{' right after a refresh' if pre else ''}: {why[1]}",
                {"kind": kind, "burst": n, "pre": pre}), end
    return None, end


def _reconnect_job(idxs):
    _init_alpha()
    lib.reset_library()
    alpha = _ALPHA["async"]
    hist = [alpha[1], ("RECONNECT", [])] + [alpha[i] for i in idxs]
    why, step, end = _run_async(hist)
    if why:
        return (f"C05|async|{why[0]}|after-reconnect", f"async client, [P, disconnect+connect of the same spa object] then "
                                                       f"{[alpha[i][0] for i in idxs]}: at step {step}: {why[1]}",
                {"kind": "async", "reconnect": list(idxs)}), end
    return None, end


def _quiet_job(job):
    """A spa on which nothing changes for 5 / 11 / 35 minutes, then every kind of partial update: they are applied and
    acknowledged like the first one after the connection."""
    kind, quiet, idxs = job
    _init_alpha()
    lib.reset_library()
    alpha = _ALPHA[kind]
    hist = [alpha[1], ("QUIET", quiet)] + [alpha[i] for i in idxs]
    why, step, end = (_run_async if kind == "async" else _run_threaded)(hist)
    if why:
        return (f"C05|{kind}|{why[0]}|after-quiet", f"{kind} client, [P, {quiet:.0f} s without a partial update] then "
                                                    f"{[alpha[i][0] for i in idxs]}: at step {step}: {why[1]}",
                {"kind": kind, "quiet": quiet, "idxs": list(idxs)}), end
    return None, end


def _init_alpha():
    if _ALPHA:
        return
    snap = lib.default_snapshot()
    mod = lib.pack_module(f"{snap.packtype.lower()}-log-{snap.log_version}")
    lc = mod.GeckoLogStruct(None)
    p, p1, q = _positions(lc.begin)
    _LOG_BEGIN[0] = lc.begin
    if q + 2 > lc.begin + lc.end or q + 2 > 1024:
        raise core.HarnessError("C05: positions outside the refresh window")
    _POS["ppq"] = (p, p1, q)
    _ALPHA["async"] = alphabet(p, p1, q) + alphabet_async_extra(p, p1, q)
    _ALPHA["threaded"] = alphabet(p, p1, q)


def run(ctx):
    _init_alpha()
    n_alpha = len(_ALPHA["async"])
    depth = {"async": 3 if ctx.quick else 4, "threaded": 3 if ctx.quick else 4}
    states = set()
    transitions = 0
    traces = 0
    for kind in ("async", "threaded"):
        n_alpha = len(_ALPHA[kind])
        jobs = []
        for d in range(1, depth[kind] + 1):
            for idxs in itertools.product(range(n_alpha), repeat=d):
                jobs.append((kind, idxs))
        cs = max(1, len(jobs) // (ctx.workers * 16))
        for res, end in core.pimap(ctx, _job, jobs, chunksize=cs):
            traces += 1
            states.add((kind, end))
            if res:
                ctx.violation(*res)
        transitions += sum(len(j[1]) for j in jobs)
        ctx.log(f"{kind}: {len(jobs)} histories to depth {depth[kind]} over {n_alpha} events")
        ctx.set(f"histories_{kind}", len(jobs))
        ctx.set(f"depth_{kind}", depth[kind])
        # non-initial start: one partial update lands during the handshake (after the client's k-th datagram, every k),
        # then every history to a smaller depth
        ejobs = []
        ed = 2
        delays = (0.005, 0.2, 0.4) if ctx.quick else (0.005, 0.05, 0.1, 0.2, 0.3, 0.4, 0.5)
        HANDSHAKE_SENDS = _handshake_sends(kind)
        if HANDSHAKE_SENDS < 4:
            raise core.HarnessError(f"C05: only {HANDSHAKE_SENDS} client datagrams in a handshake")
        for k in range(1, HANDSHAKE_SENDS + 1):
            for dl in delays:
                for d in range(0, ed + 1):
                    for idxs in itertools.product(range(n_alpha), repeat=d):
                        ejobs.append((kind, idxs, (k, dl)))
        injected = 0
        for res, end in core.pimap(ctx, _job, ejobs, chunksize=max(1, len(ejobs) // (ctx.workers * 8))):
            traces += 1
            states.add((kind, "early", end))
            if res:
                ctx.violation(*res)
        transitions += sum(len(j[1]) + 1 for j in ejobs)
        ctx.set(f"early_histories_{kind}", len(ejobs))
        ctx.log(f"{kind}: {len(ejobs)} histories that begin with a partial update inside the handshake "
                f"(after datagram k=1..{HANDSHAKE_SENDS} + {list(delays)} s, then depth <= {ed})")
    # every single message (record lists up to length 3) on a fresh client, alone and after a refresh
    nmsg = len(all_messages())
    jobs = []
    step = max(1, nmsg // (ctx.workers * 2))
    for kind in ("async", "threaded"):
        for pre in (False, True):
            for lo in range(0, nmsg, step):
                jobs.append((kind, lo, min(nmsg, lo + step), pre))
    for n, bad, ends in core.pimap(ctx, _msg_job, jobs):
        traces += n
        transitions += n
        states.update(("msg", e) for e in ends)
        for b in bad:
            ctx.violation(*b)
    ctx.set("single_message_sweep", nmsg * 4)
    ctx.log(f"single-message sweep: {nmsg} record lists x 2 clients x (alone, after refresh)")
    # acknowledgement numbering across the wrap of the protocol counter: 420 consecutive partial updates per client
    for kind in ("async", "threaded"):
        alpha = _ALPHA[kind]
        hist = tuple([1, 2] * 210)
        res, end = _job((kind, hist))
        traces += 1
        transitions += len(hist)
        if res:
            ctx.violation(res[0].replace("|event=", "|long-run|event="), res[1][:400], {"kind": kind, "history": list(hist)})
    ctx.set("long_run_updates", 840)
    # bursts: many partial updates pending at once (more than any fixed queue bound a refresh plus traffic would fit in)
    bjobs = [(kind, n, pre) for kind in ("async", "threaded") for n in ((30, 70, 150) if ctx.quick else (30, 70, 90, 150, 300, 600))
             for pre in (None, "refresh")]
    for res, end in core.pmap(ctx, _burst_job, bjobs, chunksize=1):
        traces += 1
        transitions += 1
        states.add(("burst", end))
        if res:
            ctx.violation(*res)
    ctx.set("burst_runs", len(bjobs))
    gjobs = [(kind, n) for kind in ("async", "threaded") for n in (4, 40, 63, 64, 127, 128, 129, 200, 255)]
    for res, end in core.pmap(ctx, _big_job, gjobs, chunksize=1):
        traces += 1
        transitions += 1
        states.add(("big", end))
        if res:
            ctx.violation(*res)
    ctx.set("big_message_runs", len(gjobs))
    # the same spa object connected a second time, then every event (and every pair of events)
    n_alpha = len(_ALPHA["async"])
    rjobs = [(i,) for i in range(n_alpha)] + [(i, j) for i in range(n_alpha) for j in range(n_alpha) if not ctx.quick or (i + j) % 3 == 0]
    for res, end in core.pmap(ctx, _reconnect_job, rjobs, chunksize=4):
        traces += 1
        transitions += 1
        states.add(("reconnect", end))
        if res:
            ctx.violation(*res)
    ctx.set("reconnect_histories", len(rjobs))
    # long quiet periods, then every event
    qjobs = []
    for kind in ("async", "threaded"):
        na = len(_ALPHA[kind])
        for quiet in ((660.0,) if ctx.quick else (300.0, 660.0, 2100.0)):
            qjobs += [(kind, quiet, (i,)) for i in range(na)]
            qjobs += [(kind, quiet, (1, 1)), (kind, quiet, (2, 1))]
    for res, end in core.pmap(ctx, _quiet_job, qjobs, chunksize=1):
        traces += 1
        transitions += 1
        states.add(("quiet", end))
        if res:
            ctx.violation(*res)
    ctx.set("quiet_period_histories", len(qjobs))
    ctx.set("states", len(states))
    ctx.set("transitions", transitions)
    ctx.set("traces_validated_against_impl", traces)
    ctx.set("alphabet", [a[0] + ":" + str(len(a[1])) for a in _ALPHA["async"]])
    ctx.set("exhaustive", True)
    ctx.sample({"history": ["P[(p,A)]", "SPA+REFRESH[(p,C)]", "P[(p,A),(p,B)]"],
                "oracle": "client block == reference after each event; one STATQ (seq 1..191, src=client dst=spa) per STATP"})
    ctx.assume("states = distinct end blocks reached; histories are enumerated statelessly (no merging), every "
               "history is run on freshly connected real objects")
    ctx.assume("positions {p,p+1,q} inside the log refresh window, values from three byte pairs; the handlers "
               "treat positions/values opaquely (struct.unpack + slicing)")


def replay(ctx, data):
    _init_alpha()
    if "big" in data:
        res, _ = _big_job((data["kind"], data["big"]))
        if res:
            ctx.violation(*res)
    elif "burst" in data:
        res, _ = _burst_job((data["kind"], data["burst"], data.get("pre")))
        if res:
            ctx.violation(*res)
    elif "quiet" in data:
        res, _ = _quiet_job((data["kind"], data["quiet"], tuple(data["idxs"])))
        if res:
            ctx.violation(*res)
    elif "reconnect" in data:
        res, _ = _reconnect_job(tuple(data["reconnect"]))
        if res:
            ctx.violation(*res)
    elif "message" in data:
        m = [(pos, d) for pos, d in data["message"]]
        hist = ([("SPA+REFRESH", [(_POS["ppq"][0], C)])] if data.get("pre") else []) + [("P", m)]
        why, step, end = (_run_async if data["kind"] == "async" else _run_threaded)(hist)
        if why:
            ctx.violation(f"C05|{data['kind']}|{why[0]}|single-message", why[1], data)
    else:
        res, _ = _job((data["kind"], tuple(data["history"]), data.get("early")))
        if res:
            ctx.violation(*res)
    ctx.set("states", 1)
    ctx.set("transitions", 1)
    ctx.set("traces_validated_against_impl", 1)
