"""C16 - sequence numbers: requests cycle 1..191, commands 192..255, never 0.

(a) explicit-state BFS over EVERY reachable counter state of both implementations
    (GeckoAsyncUdpProtocol and GeckoUdpSocket): state = (protocol counter, command counter);
    transitions = the real get_and_increment_sequence_counter(False/True) executed on a real
    object set to that state; lock-step with the reference successor function.
    Canonicalisation: the method reads/writes only the two counters (+ the lock), so the pair is
    the whole state.
(b) real threads on the threaded socket under the controlled scheduler (E5), pre-emption
    bounded, started from fresh and from the wrap states; oracle = results are distinct and are
    exactly the next k values of the cycle (linearizable against the sequential model).
(c) wire classification: every datagram the async client puts on the wire in a run that
    exercises every request kind, and every request kind of the threaded client (call-site
    enumeration on a real GeckoSpa), must carry a sequence byte of its class.
"""
from __future__ import annotations

import struct
from collections import deque

from .. import core, explore, lib, threads
from ..peers import SPA_ADDR, SPA_ID, unframe
from ..vloop import Chooser

LEVEL = "model_checking"

from geckolib.driver.async_udp_protocol import GeckoAsyncUdpProtocol  # noqa: E402
from geckolib.driver.udp_socket import GeckoUdpSocket  # noqa: E402


# ---- reference model ---------------------------------------------------------------------
def ref_next(state, command):
    p, c = state
    if command:
        nc = 192 if c >= 255 else c + 1
        return (p, nc), nc
    np_ = 1 if p >= 191 else p + 1
    return (np_, c), np_


def _mk(kind):
    if kind == "async":
        return GeckoAsyncUdpProtocol(None, None)
    return GeckoUdpSocket()


def _advance(obj, state):
    """Black-box: bring a FRESH object to `state` through the public method only."""
    p, c = state
    for _ in range(p):
        obj.get_and_increment_sequence_counter(False)
    for _ in range(c - 191):
        obj.get_and_increment_sequence_counter(True)


def _euler_ops():
    """Op sequence (False/True) that, started at torus state (1,192), traverses every edge of the
    product of the two cycles exactly once (Hierholzer on the reference model's graph)."""
    start = (1, 192)
    out_edges = {}
    stack = [(start, None)]
    circuit = []
    nxt_idx = {}
    while stack:
        v, op_in = stack[-1]
        i = nxt_idx.get(v, 0)
        if i < 2:
            nxt_idx[v] = i + 1
            op = bool(i)
            w, _ = ref_next(v, op)
            stack.append((w, op))
        else:
            stack.pop()
            if op_in is not None:
                circuit.append(op_in)
    circuit.reverse()
    return circuit


def _bfs(kind):
    """Every reachable counter state x both operations, driven through the public method only,
    in lock-step with the reference model (the object's fields are never read or written)."""
    viol = []
    seen = set()
    transitions = 0

    def step(obj, st, command, ctxt):
        nonlocal transitions
        got = obj.get_and_increment_sequence_counter(command)
        exp_state, exp = ref_next(st, command)
        transitions += 1
        seen.add(st)
        seen.add(exp_state)
        lo, hi = (192, 255) if command else (1, 191)
        if got != exp or not (isinstance(got, int) and lo <= got <= hi):
            viol.append((f"C16|counter|{kind}|command={command}|state={st}",
                         f"{kind} counter in model state {st} ({ctxt}) command={command}: returned {got}, model says {exp}",
                         {"mode": "counter", "impl": kind, "state": list(st), "command": command}))
            return None
        return exp_state

    # transient states: (p,191) for p=0..191 and (0,c) for c=191..255, both ops at each
    for p in range(0, 192):
        obj = _mk(kind)
        st = (0, 191)
        ok = True
        for _ in range(p):
            st = step(obj, st, False, "transient walk")
            if st is None:
                ok = False
                break
        if ok:
            step(obj, st, True, "transient")
        if viol:
            return seen, transitions, viol
    for c in range(191, 256):
        obj = _mk(kind)
        st = (0, 191)
        ok = True
        for _ in range(c - 191):
            st = step(obj, st, True, "transient walk")
            if st is None:
                ok = False
                break
        if ok:
            step(obj, st, False, "transient")
        if viol:
            return seen, transitions, viol
    # the torus: one Euler circuit covers every (state, op) edge exactly once
    obj = _mk(kind)
    st = (0, 191)
    st = step(obj, st, False, "entry")
    st = step(obj, st, True, "entry")
    for op in _euler_ops():
        st = step(obj, st, op, "euler circuit")
        if st is None:
            return seen, transitions, viol
    if st != (1, 192):
        viol.append((f"C16|counter|{kind}|circuit", f"Euler circuit ended in {st}", {"mode": "counter-circuit", "impl": kind}))
    # independence per connection: two live objects interleaved each follow their own cycle
    a, b = _mk(kind), _mk(kind)
    sa = sb = (0, 191)
    for i in range(600):
        op = (i % 5) in (1, 3)
        sa = step(a, sa, op, "two connections interleaved (A)")
        if sa is None:
            break
        if i % 3 != 2:
            sb = step(b, sb, not op, "two connections interleaved (B)")
            if sb is None:
                break
    if not viol:
        c = _mk(kind)  # a connection created after others were used starts its own cycles
        sc = step(c, (0, 191), False, "fresh connection after others")
        if sc is not None:
            step(c, sc, True, "fresh connection after others")
    return seen, transitions, viol


# ---- threads -----------------------------------------------------------------------------
_OPCODE_WARM = False


def _thread_job(job):
    (nthreads, ncalls, kinds, start, opcodes), prefix = job
    global _OPCODE_WARM
    if opcodes and not _OPCODE_WARM:
        # CPython 3.12: f_trace_opcodes set from a 'call' event only takes effect once the code
        # object has been instrumented for opcode events - the first execution in a process sees
        # no opcode events.  Warm up, then prove the event stream is stable before using it.
        _OPCODE_WARM = True
        a = _thread_job((job[0], ()))
        b = _thread_job((job[0], ()))
        c = _thread_job((job[0], ()))
        if b["trace"] != c["trace"] or len(b["trace"]) <= 4:
            raise core.HarnessError(f"opcode tracing unstable: {len(a['trace'])},{len(b['trace'])},{len(c['trace'])}")

    def body(ch):
        sock = GeckoUdpSocket()
        sched = threads.Sched(ch, ("geckolib/driver/udp_socket.py",), opcodes=opcodes)
        sock._lock = threads.CoopLock(sched)
        _advance(sock, start)

        def mk(i):
            def run():
                return [sock.get_and_increment_sequence_counter(kinds[i]) for _ in range(ncalls)]

            return run

        res = sched.run([mk(i) for i in range(nthreads)])
        viol = []
        rep = {"mode": "threads", "nthreads": nthreads, "ncalls": ncalls, "kinds": list(kinds),
               "start": list(start), "opcodes": opcodes, "prefix": [list(p) for p in ch.trace]}
        key = f"C16|threads|n={nthreads}x{ncalls}|kinds={kinds}|start={start}"
        if sched.deadlock:
            viol.append((key + "|deadlock", "deadlock among counter callers", rep))
        else:
            # expected multiset: per kind, the next k values of that kind's cycle
            st = tuple(start)
            exp = {False: [], True: []}
            for i in range(nthreads):
                for _ in range(ncalls):
                    st, v = ref_next(st, kinds[i])
                    exp[kinds[i]].append(v)
            got = {False: [], True: []}
            for i, r in enumerate(res):
                got[kinds[i]].extend(r or [])
            final = st if (sock.get_and_increment_sequence_counter(False) == ref_next(st, False)[1]
                           and sock.get_and_increment_sequence_counter(True) == ref_next(st, True)[1]) else "diverged"
            per_thread_ok = all(
                all(ref_gap_ok(r[j], r[j + 1], kinds[i]) for j in range(len(r) - 1)) for i, r in enumerate(res)
            )
            if (sorted(got[False]) != sorted(exp[False]) or sorted(got[True]) != sorted(exp[True])
                    or final != st or not per_thread_ok or any(t.error for t in sched.threads)):
                viol.append((key, f"concurrent callers got {res} (schedule {sched.schedule}), "
                                  f"sequential model hands out {exp}, final {final} vs {st}", rep))
        return {"violations": viol, "obs": core.digest(res), "end": core.digest(sched.schedule)}

    return explore.run_with(prefix, body)


def _write_thread_job(job):
    """Writers on the threaded CLIENT (the counter's real callers): two or three threads write device values through
    GeckoSpa._on_set_value, one of them a value its field cannot encode (the write raises; whatever number it drew is
    spent).  Every number handed out is the successor of the one handed out before it, and no two queued commands
    carry the same number."""
    (plan, start), prefix = job
    from geckolib.spa import GeckoSpa

    def body(ch):
        snap = lib.default_snapshot()
        spa = GeckoSpa(_Desc())
        _advance(spa, start)
        spa.pack_type, spa.config_version, spa.log_version = 10, snap.config_version, snap.log_version
        sched = threads.Sched(ch, ("geckolib/driver/udp_socket.py", "geckolib/spa.py"))
        spa._lock = threads.CoopLock(sched)
        handed = []
        orig = spa.get_and_increment_sequence_counter

        def counted(command):
            v = orig(command)
            handed.append((command, v))
            return v

        spa.get_and_increment_sequence_counter = counted

        def mk(ops):
            def run():
                out = []
                for (length, value) in ops:
                    try:
                        spa._on_set_value(10, length, value)
                        out.append("queued")
                    except Exception as e:  # noqa  (an unencodable value is refused with an exception)
                        out.append(type(e).__name__)
                return out

            return run

        res = sched.run([mk(ops) for ops in plan])
        viol = []
        rep = {"mode": "write-threads", "plan": [[list(o) for o in ops] for ops in plan], "start": list(start),
               "prefix": [list(p) for p in ch.trace]}
        key = f"C16|write-threads|plan={plan}|start={start}"
        if sched.deadlock:
            viol.append((key + "|deadlock", "deadlock among writers", rep))
        else:
            spa.get_and_increment_sequence_counter(True)
            spa.get_and_increment_sequence_counter(False)
            st = tuple(start)
            why = None
            for command, v in handed:
                st, exp = ref_next(st, command)
                if v != exp and why is None:
                    why = f"handed out {[x for c, x in handed]}: {v} is not the successor ({exp}) of the number handed out before it"
            wire = []
            for h, dest in spa._send_handlers:
                parts = unframe(h.send_bytes)
                cl = classify(parts[2]) if parts else None
                if cl:
                    wire.append(cl[1])
            if len(set(wire)) != len(wire) and why is None:
                why = f"queued commands carry the numbers {wire}: one number on two different commands"
            if any(t.error for t in sched.threads) and why is None:
                why = f"a writer thread died: {[t.error for t in sched.threads if t.error]}"
            if why:
                viol.append((key, f"writers {plan} from counter state {start} (schedule {sched.schedule}, results {res}): {why}", rep))
        return {"violations": viol, "obs": core.digest([res, handed]), "end": core.digest(sched.schedule)}

    return explore.run_with(prefix, body)


def ref_gap_ok(a, b, command):
    """within one thread values must move forward in the cycle (no repeats)."""
    return a != b


# ---- wire --------------------------------------------------------------------------------
SEQ_VERBS_PROTOCOL = (b"AVERS", b"CURCH", b"SFILE", b"STATU", b"GETWC", b"SETWC", b"REQRM", b"STATQ", b"UPDTS", b"REQWC")
SEQ_VERBS_COMMAND = (b"SPACK",)


def classify(content):
    """-> (verb, seq, expected range) for sequenced requests, else None."""
    verb = content[:5]
    if verb in SEQ_VERBS_COMMAND:
        return verb, content[5], (192, 255)
    if verb in SEQ_VERBS_PROTOCOL:
        return verb, content[5], (1, 191)
    return None


def _wire_async():
    from ..rig import Rig

    r = Rig(Chooser(), model=True)
    viol = []
    seen = {}
    ok = r.connect(60.0)
    if not ok:
        raise core.HarnessError("C16 wire: async stack did not connect")
    # let the facade do its first watercare/reminders round and a refresh happen
    r.loop.run_for(130.0)
    fac = r.facade
    # commands of every kind
    acc = r.spa.accessors

    async def cmds():
        await r.spa.async_press(1)
        tu = acc["TempUnits"]
        await tu.async_set_value("F" if tu.value == "C" else "C")
        await fac.water_heater.async_set_target_temperature(30 if tu.value == "C" else 90)
        await fac.water_care.async_set_mode(2)
        await r.spa.async_get_watercare()
        await r.spa.async_get_reminders()

    t = r.call(cmds(), timeout=120.0)
    if not t.done() or t.exception():
        raise core.HarnessError(f"C16 wire: command script failed {t}")
    # push the counters over their wrap: many key presses and watercare queries
    async def many():
        for i in range(70):
            await r.spa.async_press(1 + (i % 2))
        for i in range(200):
            await r.spa.async_get_watercare()

    t = r.call(many(), timeout=4000.0)
    if not t.done() or t.exception():
        raise core.HarnessError(f"C16 wire: wrap script failed {t}")
    # lossy phase: a ping, a watercare query and a key press each lose their first transmission while unsolicited partial
    # updates keep arriving (their STATQ acknowledgements are numbered outside the request lock)
    from ..peers import frame

    lost = {}

    def drop(data, src):
        for verb in (b"APING", b"GETWC", b"SPACK"):
            if verb in data and lost.get(verb, 0) < 1 and armed.get(verb):
                lost[verb] = lost.get(verb, 0) + 1
                return True
        return False

    armed = {}
    r.peer.drop_request = drop

    def statp_burst():
        if r.spa is not None and r.spa._transport is not None and not r.spa._transport.closed:
            r.net.inject(r.spa._transport, frame(SPA_ID, r.man._client_id, b"STATP\x01\x01\x2c\x00" + bytes([burst[0] % 256])), SPA_ADDR)
        burst[0] += 1
        if burst[0] < 400:
            r.loop.call_at(r.loop.time() + 0.7, statp_burst)

    burst = [0]
    r.loop.call_at(r.loop.time() + 0.1, statp_burst)

    async def lossy():
        armed[b"GETWC"] = True
        await r.spa.async_get_watercare()
        armed[b"SPACK"] = True
        await r.spa.async_press(1)
        armed[b"APING"] = True
        await asyncio.sleep(150.0)
        await r.spa.async_get_watercare()
        await r.spa.async_press(2)
        # a refresh whose answer loses one non-final segment (the transfer is run again) while partial updates keep being
        # acknowledged, then writes through the plain (blocking-style) setter of an item
        nseg = [0]

        def lose_third(src, dst, data):
            if src == SPA_ADDR and b"STATV" in data:
                nseg[0] += 1
                if nseg[0] == 3:
                    return ["drop"]
            return None

        r.net.fates = lose_third
        await r.spa.struct.get(r.spa._protocol, r.spa._get_status_block_handler_func)
        r.net.fates = None
        if nseg[0] < 3:
            raise core.HarnessError("C16 wire: the refresh had fewer than three segments")
        await r.spa.async_get_watercare()
        tu_ = acc["TempUnits"]
        for _ in range(3):
            tu_.value = "F" if tu_.value == "C" else "C"
            await asyncio.sleep(1.5)
            await r.spa.async_get_watercare()
        # the OS reports a failed send (ICMP unreachable) for one watercare query and one key press: the endpoint
        # stays open, the retry goes out, and the numbering carries on from where it was
        for verb in (b"GETWC", b"SPACK"):
            once = [verb]
            r.net.fates = lambda src, dst, data: (["error"] if once and once[0] in data and not once.clear() else None)
            if verb == b"GETWC":
                await r.spa.async_get_watercare()
            else:
                await r.spa.async_press(1)
            r.net.fates = None
            await r.spa.async_get_watercare()
            await r.spa.async_press(2)

    import asyncio
    t = r.call(lossy(), timeout=600.0)
    if not t.done() or t.exception():
        raise core.HarnessError(f"C16 wire: lossy script failed {t}")
    burst[0] = 10 ** 6
    r.peer.drop_request = None
    # every sequenced datagram: its range, and - per kind - the successor of the previous one on this connection
    n = 0
    last = {}
    for (tm, src, dst, data) in r.net.sent:
        if dst != SPA_ADDR:
            continue
        parts = unframe(data)
        if parts is None:
            continue
        cl = classify(parts[2])
        if cl is None:
            continue
        verb, seq, (lo, hi) = cl
        n += 1
        seen.setdefault(verb.decode(), set()).add(seq)
        if not (lo <= seq <= hi):
            viol.append((f"C16|wire|async|{verb.decode()}", f"async client sent {verb.decode()} with sequence {seq}, "
                         f"outside {lo}..{hi}", {"mode": "wire-async"}))
        elif src in last.get(lo, {}):
            prev = last[lo][src]
            if seq != (prev + 1 if prev < hi else lo):
                viol.append((f"C16|wire|async|successor|{'command' if lo == 192 else 'protocol'}",
                             f"async client sent {verb.decode()} with sequence {seq} after {prev} in the {lo}..{hi} cycle of that "
                             f"connection (t={tm:.2f})", {"mode": "wire-async"}))
        last.setdefault(lo, {})[src] = seq
    r.exit()
    r.close()
    return n, {k: [min(v), max(v), len(v)] for k, v in seen.items()}, viol


def _chain_violations(sent, client_filter, who, mode):
    """Successor chain per kind and per connection (= source address) over a list of (t, src, data)."""
    viol = []
    last = {}
    last_data = {}
    n = 0
    for (tm, src, data) in sent:
        if not client_filter(src):
            continue
        parts = unframe(data)
        if parts is None:
            continue
        cl = classify(parts[2])
        if cl is None:
            continue
        verb, seq, (lo, hi) = cl
        n += 1
        if not (lo <= seq <= hi):
            viol.append((f"C16|wire|{who}|{verb.decode()}", f"{who} client sent {verb.decode()} with sequence {seq}, outside {lo}..{hi}",
                         {"mode": mode}))
        elif src in last.get(lo, {}):
            prev = last[lo][src]
            if data == last_data.get((lo, src)):
                continue  # a retransmission of the very same datagram (the blocking client re-sends the request object)
            if seq != (prev + 1 if prev < hi else lo):
                viol.append((f"C16|wire|{who}|successor|{'command' if lo == 192 else 'protocol'}",
                             f"{who} client sent {verb.decode()} with sequence {seq} after {prev} in the {lo}..{hi} cycle of that "
                             f"connection (t={tm:.2f})", {"mode": mode}))
        elif seq != lo:
            viol.append((f"C16|wire|{who}|first|{'command' if lo == 192 else 'protocol'}",
                         f"{who} client: the first {lo}..{hi} number of a connection is {seq} ({verb.decode()}), a new connection "
                         f"counts from {lo}", {"mode": mode}))
        last.setdefault(lo, {})[src] = seq
        last_data[(lo, src)] = data
    return n, viol


def _wire_reconnect():
    """The SAME GeckoAsyncSpa object connected, used, disconnected and connected again: each connection numbers from
    the start of both cycles and every number is the successor of the previous one of its kind on that connection."""
    from .c01 import ARig
    from ..peers import frame
    import asyncio

    lib.reset_library()
    rig = ARig()
    spa = rig.spa

    async def use():
        await spa.async_press(1)
        await spa.async_set_watercare(2)
        await spa.async_get_watercare()
        await spa._on_async_set_value(300, 1, 1)
        await spa.async_get_reminders()

    def statp():
        rig.net.inject(spa._transport, frame(SPA_ID, b"IOSgeckomc-0001", b"STATP\x01\x01\x2c\x00\x07"), SPA_ADDR)

    for rnd in range(2):
        with rig.loop.running():
            t = rig.loop.create_task(use(), name="HARNESS:use")
        statp()
        rig.loop.run_for(120.0, t.done)
        statp()
        rig.loop.run_for(1.0)
        if not t.done() or t.exception():
            raise core.HarnessError(f"C16 reconnect: command script failed {t}")
        if rnd == 0:
            with rig.loop.running():
                t = rig.loop.create_task(spa.disconnect(), name="HARNESS:disconnect")
            rig.loop.run_for(10.0, t.done)
            with rig.loop.running():
                t = rig.loop.create_task(spa.connect(), name="HARNESS:connect")
            rig.loop.run_for(90.0, t.done)
            if not t.done() or t.exception() or not spa.is_connected:
                rig.close()
                return 0, [("C16|wire|async|reconnect", f"the same spa object cannot be connected a second time: {t!r}", {"mode": "wire-reconnect"})]
            for task in rig.tasks._tasks:
                if task.get_name() in ("SPA:Ping loop", "SPA:Refresh loop") and not task.done():
                    task.cancel()
            rig.loop.run_for(0.5)
    n, viol = _chain_violations([(tm, src, data) for (tm, src, dst, data) in rig.net.sent], lambda src: src != SPA_ADDR, "async", "wire-reconnect")
    rig.close()
    return n, viol


def _wire_threaded_run():
    """The blocking client really connected (stepped engine): handshake, refreshes, key presses and acknowledgements of
    unsolicited partial updates in between - one successor chain per kind."""
    from .. import stepped
    from ..peers import frame

    rig = stepped.TRig()
    if not rig.connect():
        raise core.HarnessError("C16: threaded client did not connect")
    rig.run_for(0.5)
    for i in range(6):
        rig.inject(frame(SPA_ID, b"IOSgeckomc-0001", b"STATP\x01\x01\x2c\x00" + bytes([i + 1])))
        rig.run_for(0.4)
        with stepped.patched_clock(rig.world.clock):
            rig.spa.refresh()
        rig.run_for(3.0)
        with stepped.patched_clock(rig.world.clock):
            rig.spa.press(1 + i % 2)
        rig.run_for(1.0)
        rig.inject(frame(SPA_ID, b"IOSgeckomc-0001", b"STATP\x01\x01\x2c\x00" + bytes([i + 100])))
        rig.run_for(0.4)
    # an outage: pings go unanswered for longer than the not-responding time-out, then the spa answers again - the
    # connection (and its numbering) goes on
    for i in range(2):
        rig.ping()
        rig.run_for(60.0)
    rig.world.net.fates = lambda src, dst, data: ["drop"]  # (both engines are stepped sockets: the outage is on the wire)
    for i in range(4):
        rig.ping()
        rig.run_for(60.0)
    rig.world.net.fates = None
    for i in range(3):
        rig.ping()
        rig.run_for(20.0)
        with stepped.patched_clock(rig.world.clock):
            rig.spa.press(1)
        rig.run_for(2.0)
    n, viol = _chain_violations([(t, "client", d) for (t, d, dest) in rig.client_sent], lambda src: True, "threaded", "wire-threaded-run")
    return n, viol


class _Desc:
    identifier = SPA_ID
    client_identifier = b"IOSgeckomc"
    name = "Spa"
    destination = SPA_ADDR
    identifier_as_string = SPA_ID.decode()


def _wire_threaded():
    """Call-site enumeration on a real (never started) GeckoSpa: every request kind it can queue."""
    from geckolib.spa import GeckoSpa
    from geckolib.automation.watercare import GeckoWaterCare
    from geckolib.automation.reminders import GeckoReminders
    from geckolib.driver import GeckoStatusBlockProtocolHandler

    viol = []
    seen = {}
    n = 0

    def drain(spa, site):
        nonlocal n
        out, spa._send_handlers = spa._send_handlers, []
        for h, dest in out:
            data = h.send_bytes
            parts = unframe(data)
            if parts is None:
                continue
            cl = classify(parts[2])
            if cl is None:
                continue
            verb, seq, (lo, hi) = cl
            n += 1
            seen.setdefault(f"{site}:{verb.decode()}", set()).add(seq)
            if not (lo <= seq <= hi):
                viol.append((f"C16|wire|threaded|{site}|{verb.decode()}",
                             f"threaded client call site {site} queued {verb.decode()} with sequence {seq}, "
                             f"outside {lo}..{hi}", {"mode": "wire-threaded", "site": site}))

    snap = lib.default_snapshot()
    for start in ((0, 191), (190, 254), (191, 255)):
        spa = GeckoSpa(_Desc())
        _advance(spa, start)
        spa.pack_type = 10
        spa.config_version = snap.config_version
        spa.log_version = snap.log_version

        class _F:  # minimal facade for the automation helpers
            unique_id = "x"
            name = "Spa"
            _spa = spa

        for _ in range(3):
            spa._on_set_value(10, 1, 3)
            drain(spa, "_on_set_value")
            spa._on_set_value(10, 2, 300)
            drain(spa, "_on_set_value")
            spa.press(1)
            drain(spa, "press")
            wc = GeckoWaterCare(_F())
            wc.set_mode(2)
            drain(spa, "watercare.set_mode")
            wc.update()
            drain(spa, "watercare.update")
            rem = GeckoReminders(_F())
            rem.update()
            drain(spa, "reminders.update")
            # handshake chain call sites
            sender = spa.sendparms

            class _H:
                en_build = en_major = en_minor = co_build = co_major = co_minor = 1
                channel = 1
                signal_strength = 2
                plateform_key = snap.packtype
                config_version = snap.config_version
                log_version = snap.log_version

            spa._on_version_received(_H(), sender)
            drain(spa, "handshake.channel")
            spa._on_channel_received(_H(), sender)
            drain(spa, "handshake.config")
            spa._on_config_received(_H(), sender)
            drain(spa, "handshake.status")
            # refresh
            spa._is_connected = True
            spa.refresh()
            drain(spa, "refresh")
            spa._is_connected = False
            # partial update ack
            ph = [h for h in spa._receive_handlers if type(h).__name__ == "GeckoPartialStatusBlockProtocolHandler"][0]
            ph.handle(b"STATP\x01\x00\x10\x01\x02", sender)
            ph.changes.clear()
            drain(spa, "partial.ack")
    return n, {k: [min(v), max(v), len(v)] for k, v in seen.items()}, viol


# ---- entry points ------------------------------------------------------------------------
def run(ctx):
    states = transitions = 0
    for kind in ("async", "threaded"):
        seen, tr, viol = _bfs(kind)
        states += len(seen)
        transitions += tr
        ctx.merge_violations(viol)
        ctx.set(f"states_{kind}", len(seen))
        ctx.log(f"counter BFS {kind}: {len(seen)} states, {tr} transitions, {len(viol)} violations")
    ctx.set("states", states)
    ctx.set("transitions", transitions)
    ctx.sample({"counter_state": [0, 191], "op": "next(command=True)", "returns": 192, "next_state": [0, 192]})
    ctx.sample({"counter_state": [191, 255], "op": "next(command=False)", "returns": 1, "next_state": [1, 255]})

    # threads
    bound = 2 if ctx.quick else 3
    configs = [
        (2, 2, (False, False), (0, 191), False),
        (2, 2, (True, True), (0, 254), False),
        (2, 2, (False, True), (190, 254), False),
        (3, 1, (False, False, False), (190, 191), False),
        (3, 1, (True, True, False), (0, 254), False),
        (2, 1, (False, False), (190, 191), True),
        (2, 1, (True, True), (0, 254), True),
    ]
    if not ctx.quick:
        configs += [
            (2, 2, (False, False), (190, 191), True),
            (3, 1, (True, True, True), (0, 254), True),
            (3, 2, (False, False, False), (189, 191), False),
        ]
    total = 0
    for cfg in configs:
        st = explore.explore(ctx, _thread_job, cfg, bound, label=f"threads{cfg}")
        total += st["executions"]
        explore.fold_stats(ctx, st, prefix="threads_")
        ctx.log(f"threads {cfg}: {st['executions']} schedules, bound {st['completed_bound']}, "
                f"{len(st['end'])} distinct schedules, {len(st['obs'])} distinct outcomes")
        if len(st["end"]) < 2 and not st["stopped_on_violation"]:
            raise core.HarnessError("thread exploration produced a single schedule - vacuous")
    # writers on the threaded client, one value unencodable
    BAD, OK1, OK2 = (2, 70000), (1, 3), (2, 300)
    wplans = [((BAD,), (OK1, OK2)), ((OK1, BAD), (OK2,)), ((BAD, OK1), (BAD, OK2)), ((OK1,), (OK2,))]
    if not ctx.quick:
        wplans += [((BAD,), (OK1,), (OK2,)), ((BAD, BAD), (OK1, OK2))]
    wtotal = 0
    for plan in wplans:
        for start in ((0, 191), (0, 254)):
            st = explore.explore(ctx, _write_thread_job, (plan, start), bound - 1, label=f"writers{plan}@{start}")
            wtotal += st["executions"]
            explore.fold_stats(ctx, st, prefix="writers_")
            if len(st["end"]) < 2 and not st["stopped_on_violation"]:
                raise core.HarnessError("writer exploration produced a single schedule - vacuous")
    ctx.set("writer_thread_schedules", wtotal)
    ctx.set("writer_thread_preemption_bound", bound - 1)
    total += wtotal
    ctx.set("thread_schedules", total)
    ctx.set("thread_preemption_bound", bound)
    ctx.sample({"threads": "2 threads x 2 calls, kinds (False,False), start (0,191)",
                "oracle": "results are a permutation of the next 4 values; final counter = start+4"})

    # wire
    n1, seen1, v1 = _wire_async()
    n2, seen2, v2 = _wire_threaded()
    n3, v3 = _wire_reconnect()
    n4, v4 = _wire_threaded_run()
    n1 += n3 + n4
    v1 = list(v1) + list(v3) + list(v4)
    ctx.set("wire_reconnect_datagrams", n3)
    ctx.set("wire_threaded_run_datagrams", n4)
    ctx.merge_violations(v1)
    ctx.merge_violations(v2)
    ctx.set("wire_datagrams_classified", n1 + n2)
    ctx.set("wire_async_verbs", seen1)
    ctx.set("wire_threaded_sites", seen2)
    ctx.set("traces_validated_against_impl", transitions + total + 2)
    ctx.set("exhaustive", True)
    ctx.assume("CPython GIL; thread switches only at traced line/opcode boundaries of udp_socket.py")
    ctx.assume("the counter method reads/writes only the two counters (state canonicalisation)")


def replay(ctx, data):
    mode = data.get("mode")
    if mode in ("counter", "counter-circuit"):
        seen, tr, viol = _bfs(data["impl"])
        ctx.merge_violations(viol)
    elif mode == "write-threads":
        plan = tuple(tuple(tuple(o) for o in ops) for ops in data["plan"])
        res = _write_thread_job(((plan, tuple(data["start"])), [tuple(p) for p in data["prefix"]]))
        ctx.merge_violations(res["violations"])
    elif mode == "threads":
        cfg = (data["nthreads"], data["ncalls"], tuple(data["kinds"]), tuple(data["start"]), data["opcodes"])
        res = _thread_job((cfg, [tuple(p) for p in data["prefix"]]))
        ctx.merge_violations(res["violations"])
    elif mode == "wire-reconnect":
        ctx.merge_violations(_wire_reconnect()[1])
    elif mode == "wire-threaded-run":
        ctx.merge_violations(_wire_threaded_run()[1])
    elif mode == "wire-async":
        ctx.merge_violations(_wire_async()[2])
    elif mode == "wire-threaded":
        ctx.merge_violations(_wire_threaded()[2])
    ctx.set("states", 1)
    ctx.set("transitions", 1)
    ctx.set("traces_validated_against_impl", 1)
