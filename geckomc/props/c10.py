"""C10 - reset or exit at any point leaks no endpoint/task and has no late effects.

Seam: the whole async stack on VLoop/VNet (every endpoint is a VTransport handed out by the
harness loop, every task is visible through asyncio.all_tasks).
Baseline run: discovery -> handshake -> steady state (two ping periods) -> blackout -> error state.
Crash points: at EVERY loop step k of that run (each is an await point of some task) inject
(a) async_reset(), (b) the context exit __aexit__.  After the injection: settle, then late
datagrams of the abandoned connection (a STATP that changes a watched item, a ping reply) are
delivered to every endpoint that existed at the injection, and timers run out.
Plus N consecutive connect/reset cycles.

Oracle:
  * every endpoint that existed at the injection is closed (after exit: at once; after reset:
    promptly - a discovery still legitimately in progress may keep its endpoint until it ends);
  * every SPA:/FACADE: task that existed at the injection is done promptly, after exit
    asyncio.all_tasks() holds nothing of the library;
  * observers the client registered before the injection are never called afterwards;
  * open endpoints / live tasks after cycle n equal those after cycle 1.
"""
from __future__ import annotations

import asyncio

from .. import core, explore, lib
from ..peers import SPA_ADDR, SPA_ID, frame
from ..rig import Rig
from ..vloop import Chooser

LEVEL = "fault_enumeration"

from geckolib import GeckoSpaState as S  # noqa: E402

PROMPT = 5.0
DISCOVERY_GRACE = 12.0


def _register_client_observers(rig, calls):
    """What an automation client does once the facade is ready: watch everything it can see."""
    man = rig.man
    fac = man.facade

    def obs(tag):
        def cb(*a):
            calls.append((rig.loop.time(), tag))
        return cb

    n = 0
    if fac is not None:
        fac.watch(obs("facade"))
        for d in fac.all_automation_devices:
            if d is not None:
                d.watch(obs(f"device:{d.key}"))
                n += 1
    if man._spa is not None:
        man._spa.watch(obs("spa"))
    # manager-level sensors (status, radio, channel) live across connections and legitimately keep reporting;
    # the ping sensor is created per connection and watches that connection's spa
    for name in ("_ping_sensor",):
        s = getattr(man, name)
        if s is not None:
            s.watch(obs(name))
    return n


def _late_datagrams(rig, transports):
    spa = rig.peer
    # a STATP that changes watched items: pump 1 / light state and demand of the served tables flipped with respect
    # to the spa's block (+ the fixed positions used from the start, whatever they hold)
    from ..refmodels.bitfield import Field
    acc = spa.sim.structure.accessors
    blk = spa.block
    nb = blk
    poss = {1, 275, 300, 350}
    for tag in ("P1", "UdP1", "LI", "UdLi"):
        if tag in acc:
            f = Field.of(acc[tag])
            cur = f.raw(blk)
            nb = f.put_raw(nb, 0 if cur else (len(acc[tag].items) - 1 if acc[tag].items else 1))
            poss.add(f.pos)
    recs = b"".join(bytes([p >> 8, p & 255]) + (nb[p:p + 2] if p not in (1, 300, 350) else b"\x5a\xa5") for p in sorted(poss))
    statp = b"STATP" + bytes([len(poss)]) + recs
    for tr in transports:
        proto = tr.protocol
        for content in (statp, b"APING\x00", b"RFERR"):
            try:
                proto.datagram_received(frame(SPA_ID, rig.man._client_id, content), SPA_ADDR)
            except Exception as e:  # delivering to a dead endpoint must not blow up either
                return f"late datagram raised {e!r}"
    return None


_CAP = {"spa_tasks": 0, "endpoints": 0}


def _measure_cap():
    rig = Rig(Chooser())
    if not rig.connect(200.0):
        rig.close()
        raise core.HarnessError("C10: no connection to measure what one connection owns")
    rig.loop.run_for(5.0)
    with rig.loop.running():
        n = sum(1 for t in asyncio.all_tasks(rig.loop) if not t.done() and t.get_name().startswith("SPA:"))
    e = len(rig.net.open_transports())
    rig.exit()
    rig.close()
    return n, e


def _lib_tasks(loop):
    return [t for t in asyncio.all_tasks(loop) if not t.done() and not t.get_name().startswith("HARNESS:")]


async def _slow(dt):
    await asyncio.sleep(dt)


def _run(ch, kind, k, window=0.0, variant="blackout"):
    rig = Rig(ch, window=window)
    rig.loop.timer_choices_enabled = False
    rig.enter()
    calls = []
    registered = [False]

    def on_event(event, kw):
        if event.name == "CLIENT_FACADE_IS_READY" and not registered[0]:
            registered[0] = True
            _register_client_observers(rig, calls)
        if variant == "rferr-slow-client" and event.name in ("ERROR_RF_ERROR", "RUNNING_SPA_WATER_CARE_ERROR"):
            return _slow(0.35)  # the client's handler awaits: the consumer is suspended inside its callback
        if variant == "yielding-client":
            return _slow(0.05)  # a client whose handler does a little I/O on EVERY event
        return None

    rig.man.on_event = on_event
    if variant == "corrupt-files":
        # the spa's first two config-file answers name two different platforms: the handshake raises in the parser
        left = [2]

        def corrupt(data):
            if b"FILES," in data and left[0] > 0:
                left[0] -= 1
                i = data.index(b"FILES,") + 6
                return data[:i] + b"inZZ" + data[i + 4:]
            return data

        rig.peer.reply_filter = corrupt
    if variant == "send-error":
        # one datagram send of the connection fails in steady state (5 s after the start): asyncio calls error_received
        state = {"armed": False, "done": False}
        rig.loop.call_at(rig.loop.time() + 5.0, lambda: state.__setitem__("armed", True))

        def fates(src, dst, data):
            if state["armed"] and not state["done"] and dst == SPA_ADDR and src[0] == rig.net.CLIENT_IP:
                state["done"] = True
                return ["error"]
            return None

        rig.net.fates = fates
    if variant in ("config-poke", "commands-in-flight"):
        pass  # healthy network, no scripted traffic
    elif variant in ("blackout", "yielding-client"):
        # the baseline has a blackout after 150 s of steady state
        rig.loop.call_at(rig.loop.time() + 150.0, lambda: rig.peer.set_mode("blackout"))
    else:
        # RF-error / watercare-error datagrams arrive in steady state (3 s after the start, then every 0.5 s)
        def noise():
            spa = rig.man._spa
            if spa is not None and spa._transport is not None and not spa._transport.closed:
                for content in (b"RFERR", b"WCERR"):
                    rig.net.inject(spa._transport, frame(SPA_ID, rig.man._client_id, content), SPA_ADDR)
            rig.loop.call_at(rig.loop.time() + 0.5, noise)

        rig.loop.call_at(rig.loop.time() + 5.0, noise)
    if variant == "config-poke":
        # something re-installs the configuration table at loop step k (the facade does so on every device change and on
        # every update round): every config_sleep sleeper - the tidy loop among them - wakes in that very iteration; then
        # the connection completes and is reset
        import geckolib.config as gconfig
        done = rig.loop.run_steps(k)
        if done == k:
            with rig.loop.running():
                if gconfig.ConfigChange is not None:
                    gconfig.set_config_mode(False)
            rig.loop.run_for(200.0, lambda: rig.man.spa_state == S.CONNECTED)
            rig.loop.run_for(5.0)
    elif variant == "commands-in-flight":
        # the spa stops acknowledging pack commands; the client writes two items and presses a key through the plain
        # (task-starting) calls, so several user-command tasks of the connection are in flight - then k more loop steps
        rig.loop.run_for(200.0, lambda: rig.man.spa_state == S.CONNECTED and rig.facade is not None)
        rig.loop.run_for(3.0)
        if rig.man.spa_state != S.CONNECTED:
            raise core.HarnessError("C10 commands-in-flight: no connection")
        rig.peer.drop_request = lambda data, src: b"SPACK" in data
        with rig.loop.running():
            acc_ = rig.spa.accessors
            tu_ = acc_["TempUnits"]
            tu_.value = "F" if tu_.value == "C" else "C"
            acc_["SetpointG"].value = 30.0
            rig.spa.press(1)
        done = rig.loop.run_steps(k)
    elif window > 0 and k > 150:
        # wake-up jitter: the last 150 loop steps BEFORE the injection run with timer-order choices, so the
        # injection lands in differently interleaved states
        done = rig.loop.run_steps(k - 150)
        rig.loop.timer_choices_enabled = True
        done += rig.loop.run_steps(150)
        rig.loop.timer_choices_enabled = False
    else:
        done = rig.loop.run_steps(k)
    if done < k:
        rig.close()
        return None, "beyond", "beyond"
    st = rig.man.spa_state
    transports = list(rig.net.transports)
    open_before = [t for t in transports if not t.closed]
    with rig.loop.running():
        # everything the library runs except what belongs to the manager itself (its pump and tidy loop outlive a reset)
        tasks_before = [t for t in asyncio.all_tasks(rig.loop) if not t.done()
                        and t.get_name().split(":")[0] not in ("SPAMAN", "ASYNC", "HARNESS")]
    locating = st == S.LOCATING_SPAS
    rig.loop.timer_choices_enabled = True
    why = None
    registered[0] = True  # observers are those the client registered BEFORE the injection; a later connection is a new story
    t_inj = rig.loop.time()
    if kind == "reset":
        t = rig.spawn(rig.man.async_reset(), name="HARNESS:inject")
        rig.loop.run_for(PROMPT, t.done)
        rig.loop.run_until(t_inj + PROMPT)
    else:
        t = rig.spawn(rig.man.__aexit__(None, None, None), name="HARNESS:inject")
        rig.loop.run_for(30.0, t.done)
    rig.loop.timer_choices_enabled = False
    n_calls_at_inj = len(calls)
    if not t.done():
        why = ("inject-hung", f"{kind} did not return")
    elif t.exception() is not None:
        why = ("inject-raised", f"{kind} raised {t.exception()!r}")
    if why is None and kind == "exit":
        left = _lib_tasks(rig.loop)
        if left:
            why = ("task-leak", f"after context exit these tasks are still alive: {sorted(x.get_name() for x in left)[:4]}")
        still = [x for x in open_before if not x.closed]
        if why is None and still:
            why = ("endpoint-leak", f"after context exit {len(still)} endpoint(s) opened before it are not closed "
                                    f"({'discovery' if locating else 'spa connection'} endpoint)")
    if why is None and kind == "reset":
        # tasks of the abandoned connection
        alive = [x for x in tasks_before if not x.done()]
        spa_alive = [x.get_name() for x in alive if not x.get_name().startswith("LOC:")]
        if spa_alive:
            why = ("task-leak", f"{PROMPT}s after reset these tasks of the abandoned connection are alive: {sorted(spa_alive)[:4]}")
        if why is None:
            rig.loop.run_until(t_inj + DISCOVERY_GRACE)
            alive = [x.get_name() for x in tasks_before if not x.done()]
            if alive:
                why = ("task-leak", f"{DISCOVERY_GRACE}s after reset still alive: {sorted(alive)[:4]}")
            still = [x for x in open_before if not x.closed]
            if why is None and still:
                why = ("endpoint-leak", f"{DISCOVERY_GRACE}s after reset {len(still)} endpoint(s) of the abandoned "
                                        f"connection are not closed")
    if why is None and kind == "reset" and _CAP["spa_tasks"]:
        # nothing of the abandoned connection attempt may come to life later either: whatever the manager does next,
        # the live SPA tasks / open endpoints never exceed what ONE connection owns
        rig.loop.run_until(t_inj + 40.0)
        with rig.loop.running():
            live = sorted(t.get_name() for t in asyncio.all_tasks(rig.loop) if not t.done() and t.get_name().startswith("SPA:"))
        nopen = len(rig.net.open_transports())
        if len(live) > _CAP["spa_tasks"]:
            why = ("task-leak", f"40 s after the reset {len(live)} SPA tasks are alive, one connection owns {_CAP['spa_tasks']}: "
                                f"{sorted(set(x for x in live if live.count(x) > 1))[:3]} are there more than once")
        elif nopen > _CAP["endpoints"]:
            why = ("endpoint-leak", f"40 s after the reset {nopen} endpoints are open, one connection owns {_CAP['endpoints']}")
    if why is None:
        n0 = len(calls)
        bad = _late_datagrams(rig, open_before)
        rig.loop.run_for(8.0)
        if bad:
            why = ("late-raise", bad)
        elif kind == "exit" and len(calls) > n0:
            why = ("late-observer", f"client observers called after context exit: {calls[n0:n0+3]}")
        elif kind == "reset":
            # after a reset the manager legitimately reconnects; only observers of the OLD objects count
            late = [c for c in calls[n0:]]
            if late:
                why = ("late-observer", f"observers registered on the abandoned connection called after reset: {late[:3]}")
    # (exceptions ending library tasks - e.g. the watercare-error consumer asserting on a missing facade when
    #  WCERR arrives outside CONNECTED - are not part of this property's statement and are not judged here)
    obs = core.digest([kind, st.name, why, len(open_before), len(tasks_before)])
    if kind != "exit":
        try:
            rig.exit()
        except Exception:
            pass
    rig.close()
    return why, st.name, obs


def _job(job):
    prefix = job[1]
    kind, k, window = job[0][:3]
    variant = job[0][3] if len(job[0]) > 3 else "blackout"

    def body(ch):
        why, st, obs = _run(ch, kind, k, window, variant)
        viol = []
        if why:
            viol.append((f"C10|{kind}|{why[0]}|at={st}",
                         f"{kind} injected at loop step {k} of the {variant} baseline (state {st}): {why[1]}",
                         {"mode": "inject", "kind": kind, "k": k, "window": window, "variant": variant, "prefix": [list(p) for p in ch.trace]}))
        return {"violations": viol, "obs": obs, "end": obs, "state": st}

    return explore.run_with(prefix, body)


def _baseline_len():
    rig = Rig(Chooser())
    rig.enter()
    rig.loop.call_at(rig.loop.time() + 150.0, lambda: rig.peer.set_mode("blackout"))
    n = 0
    marks = {}
    with rig.loop.running():
        while n < 400000:
            if not rig.loop.step(rig.loop.time() + 1000):
                break
            n += 1
            st = rig.man.spa_state.name
            marks.setdefault(st, n)
            if rig.man.spa_state in (S.ERROR_PING_MISSED, S.ERROR_NEEDS_ATTENTION) and n > marks[st] + 3000:
                break
    rig.exit()
    rig.close()
    return n, marks


def _variant_window():
    """Loop-step window of the rferr-slow-client baseline from the first noise arrival for ~1.6 s."""
    rig = Rig(Chooser())
    rig.enter()
    t0 = rig.loop.time()
    n = 0
    first = None
    with rig.loop.running():
        while rig.loop.time() < t0 + 5.0:
            if not rig.loop.step(t0 + 5.0):
                break
            n += 1
    first = n
    # the noise itself is scheduled by _run; step counts up to here are identical in both baselines
    rig.exit()
    rig.close()
    return first, first + 420


def _auto_job(job):
    """The library's OWN reset: a connection in an error state (pings missed / RF errors) is reset by the ping loop
    when the spa answers again.  Same obligations: endpoints and tasks of the abandoned connection go away, counts
    return to those of the first connection."""
    phase, dur, yielding = job
    rig = Rig(Chooser())
    if yielding:
        rig.man.on_event = lambda event, kw: _slow(0.05)
    why = None
    if not rig.connect(200.0):
        rig.close()
        raise core.HarnessError("C10 auto-reset: no first connection")
    rig.loop.run_for(5.0)
    up0 = (len(rig.net.open_transports()), len(_lib_tasks(rig.loop)))
    rig.peer.set_mode(phase)
    rig.loop.run_for(dur)
    st = rig.man.spa_state
    open_before = [t for t in rig.net.transports if not t.closed]
    with rig.loop.running():
        tasks_before = [t for t in asyncio.all_tasks(rig.loop) if not t.done()
                        and t.get_name().split(":")[0] in ("SPA", "FACADE")]
    n_ev = len(rig.man.events)
    old_spa = rig.man._spa
    rig.peer.set_mode("healthy")
    t_h = rig.loop.time()
    # did the library start to reset that connection?  (its disconnect announces itself)
    began = rig.loop.run_for(400.0, lambda: any(e[1].name in ("RUNNING_SPA_DISCONNECTED", "CLIENT_FACADE_TEARDOWN")
                                                for e in rig.man.events[n_ev:]))
    if began:
        t_r = rig.loop.time()
        rig.loop.run_until(t_r + PROMPT)
        alive = sorted(x.get_name() for x in tasks_before if not x.done())
        still = [x for x in open_before if not x.closed]
        if alive:
            why = ("task-leak", f"{PROMPT}s after the library began to reset the connection these tasks of it are alive: {alive[:4]}")
        elif still:
            why = ("endpoint-leak", f"{PROMPT}s after the library began to reset the connection {len(still)} endpoint(s) of it are open "
                                    f"(manager state {rig.man.spa_state.name})")
        if why is None:
            ok = rig.loop.run_for(300.0, lambda: rig.man.spa_state == S.CONNECTED and rig.man._spa is not old_spa)
            if ok:
                rig.loop.run_for(5.0)
                up1 = (len(rig.net.open_transports()), len(_lib_tasks(rig.loop)))
                if up1[0] > up0[0] or up1[1] > up0[1]:
                    why = ("cycle-growth", f"(open endpoints, live tasks) 5 s after the first connection {up0}, after the automatic reconnection {up1}")
    obs = core.digest([phase, dur, yielding, st.name, began, why])
    try:
        rig.exit()
    except Exception:
        pass
    rig.close()
    if why:
        return (f"C10|auto-reset|{why[0]}|at={st.name}", f"{phase} for {dur:.0f}s{' (yielding client)' if yielding else ''}, then healthy: {why[1]}",
                {"mode": "auto", "phase": phase, "dur": dur, "yielding": yielding}), obs, began
    return None, obs, began


def _teardown_window_job(job):
    """Once the client has been told CLIENT_FACADE_TEARDOWN its device/facade observers are never called again - also not
    by a partial update that arrives while the client's handler is still suspended inside the reset."""
    suspend_at, delay = job
    rig = Rig(Chooser())
    calls = []
    told = []

    def on_event(event, kw):
        if event.name == "CLIENT_FACADE_TEARDOWN" and not told:
            told.append(rig.loop.time())
        if event.name == suspend_at and told is not None and rig.man._spa is not None:
            spa = rig.man._spa
            if spa._transport is not None and not spa._transport.closed and not injected:
                injected.append(rig.loop.time())
                rig.net.inject(spa._transport, frame(SPA_ID, rig.man._client_id, statp[0]), SPA_ADDR, delay=delay)
            return _slow(0.5)
        return None

    injected = []
    if not rig.connect(200.0):
        rig.close()
        raise core.HarnessError("C10 teardown window: no connection")
    rig.loop.run_for(3.0)
    fac = rig.man.facade

    def obs(tag):
        def cb(*a):
            calls.append((rig.loop.time(), tag))
        return cb

    fac.watch(obs("facade"))
    for d in fac.all_automation_devices:
        if d is not None:
            d.watch(obs(f"device:{d.key}"))
    # the partial update: the spa reports pump 1 and the light running (state and demand items of the connected tables)
    from ..refmodels.bitfield import Field
    acc = rig.spa.accessors
    nb = rig.peer.block
    poss = set()
    for tag in ("P1", "UdP1", "LI", "UdLi"):
        if tag in acc:
            f = Field.of(acc[tag])
            nb = f.put_raw(nb, len(acc[tag].items) - 1 if acc[tag].items else 1)
            poss.add(f.pos)
    statp = [b"STATP" + bytes([len(poss)]) + b"".join(p.to_bytes(2, "big") + nb[p:p + 2] for p in sorted(poss))]
    # control: the same update reaches the client's observers while connected
    n0 = len(calls)
    rig.net.inject(rig.spa._transport, frame(SPA_ID, rig.man._client_id, statp[0]), SPA_ADDR)
    rig.loop.run_for(1.0)
    if len(calls) == n0:
        raise core.HarnessError("C10 teardown window: the control update did not reach any client observer")
    # ... and back, so that the update inside the reset changes values again
    back = rig.peer.block
    rig.net.inject(rig.spa._transport, frame(SPA_ID, rig.man._client_id, b"STATP" + bytes([len(poss)]) + b"".join(
        p.to_bytes(2, "big") + back[p:p + 2] for p in sorted(poss))), SPA_ADDR)
    rig.loop.run_for(1.0)
    rig.man.on_event = on_event
    t = rig.spawn(rig.man.async_reset(), name="HARNESS:reset")
    rig.loop.run_for(20.0, t.done)
    rig.loop.run_for(2.0)
    why = None
    if not t.done():
        why = ("inject-hung", "reset did not return")
    elif not told or not injected:
        raise core.HarnessError(f"C10 teardown window: teardown told={told} injected={injected}")
    else:
        late = [c for c in calls if c[0] > told[0] + 1e-9]
        if late:
            why = ("late-observer", f"client observers called after CLIENT_FACADE_TEARDOWN had been delivered (partial update arriving "
                                    f"{delay}s into the client's {suspend_at} handler): {late[:3]}")
    obs_d = core.digest([suspend_at, delay, why, len(calls)])
    try:
        rig.exit()
    except Exception:
        pass
    rig.close()
    if why:
        return (f"C10|reset|{why[0]}|during-teardown", why[1], {"mode": "teardown-window", "suspend_at": suspend_at, "delay": delay}), obs_d
    return None, obs_d


def _cycles(n_cycles=6):
    """Reconnect cycles: resources measured at the same point of every cycle (CONNECTED + 5 s, and
    12 s after the reset) must not grow."""
    rig = Rig(Chooser())
    counts = []
    for c in range(n_cycles):
        if not rig.connect(200.0):
            rig.close()
            return ("cycle-connect", f"cycle {c}: did not reach CONNECTED"), counts
        rig.loop.run_for(5.0)
        up = (len(rig.net.open_transports()), len(_lib_tasks(rig.loop)))
        t = rig.spawn(rig.man.async_reset(), name="HARNESS:reset")
        rig.loop.run_for(10.0, t.done)
        counts.append(up)
    why = None
    if any(c[0] > counts[0][0] or c[1] > counts[0][1] for c in counts[1:]):
        why = ("cycle-growth", f"(open endpoints, live tasks) 5 s after each (re)connection: {counts}")
    rig.exit()
    rig.close()
    return why, counts


def run(ctx):
    _CAP["spa_tasks"], _CAP["endpoints"] = _measure_cap()  # before the worker pool forks
    ctx.set("one_connection_owns", dict(_CAP))
    n, marks = _baseline_len()
    ctx.set("baseline_loop_steps", n)
    ctx.set("baseline_state_first_step", marks)
    # every step through discovery+handshake+first steady seconds; then a stride through the long
    # steady/blackout/error tail (those steps are repetitions of the same polling pattern)
    dense_until = marks.get("CONNECTED", 700) + 400
    ks = list(range(0, dense_until, 1))
    tail_stride = 97 if ctx.quick else 23
    ks += list(range(dense_until, n, tail_stride))
    for stname, first in marks.items():
        ks += [first + d for d in (0, 1, 2, 5, 11)]
    ks = sorted(set(k for k in ks if 0 <= k < n))
    jobs = [((kind, k, 0.0), ()) for kind in ("reset", "exit") for k in ks]
    # second baseline: RF-error / watercare-error traffic with a client whose handler awaits; every loop step of
    # a window in which consumers sit inside their callbacks
    n2 = _variant_window()
    jobs += [((kind, k, 0.0, "rferr-slow-client"), ()) for kind in ("reset", "exit")
             for k in range(n2[0], n2[1], 1 if not ctx.quick else 2)]
    ctx.set("rferr_window_steps", list(n2))
    # third baseline: a client whose handler yields on every event; exit/reset at every step through discovery and handshake
    upto = marks.get("CONNECTED", 700) + 60
    jobs += [((kind, k, 0.0, "yielding-client"), ()) for kind in ("exit", "reset") for k in range(0, upto, 1 if not ctx.quick else 3)]
    # fifth baseline: connection attempts that die in the parser (corrupted config-file answer), reset/exit afterwards
    jobs += [((kind, k, 0.0, "corrupt-files"), ()) for kind in ("reset", "exit")
             for k in range(marks.get("CONNECTING", 50), marks.get("CONNECTED", 700) + 900, 5 if ctx.quick else 1)]
    # sixth baseline: the configuration table re-installed at every step of the handshake, reset once connected
    jobs += [(("reset", k, 0.0, "config-poke"), ()) for k in range(0, marks.get("CONNECTED", 700) + 5, 1)]
    # seventh baseline: user commands in flight (acknowledgements lost) when the reset / exit comes
    jobs += [((kind, k, 0.0, "commands-in-flight"), ()) for kind in ("reset", "exit")
             for k in list(range(0, 60, 2 if ctx.quick else 1)) + list(range(60, 1500, 97 if ctx.quick else 13))]
    # fourth baseline: a failed datagram send in steady state, then reset/exit at steps from the failure on (strided)
    jobs += [((kind, k, 0.0, "send-error"), ()) for kind in ("reset", "exit") for k in range(n2[0] - 40, n2[0] + 9000, 331 if ctx.quick else 97)]
    by_state = {}
    outcomes = set()
    evals = 0
    for res in core.pimap(ctx, _job, jobs, chunksize=4):
        evals += 1
        outcomes.add(res["obs"])
        by_state[res["state"]] = by_state.get(res["state"], 0) + 1
        ctx.merge_violations(res["violations"])
    ctx.set("injection_points", len(jobs))
    ctx.set("injections_by_state", by_state)
    ctx.log(f"{len(jobs)} injections over {n} baseline steps: {by_state}")
    # jitter around a few points
    te = 0
    for kind, k in (("reset", marks.get("CONNECTING", 50) + 200), ("exit", marks.get("CONNECTING", 50) + 330),
                    ("reset", marks.get("CONNECTED", 700) + 30), ("exit", marks.get("CONNECTED", 700) + 200)):
        st = explore.explore(ctx, _job, (kind, k, 0.049), bound=1, label=f"jitter {kind}@{k}", max_execs=5000)
        te += st["executions"]
        outcomes.update(st["obs"])
    evals += te
    ctx.set("jitter_executions", te)
    if te < 20 and not ctx.violations:
        raise core.HarnessError(f"C10: the jitter exploration met almost no choice points ({te} executions) - vacuous")
    ajobs = [(ph, d, y) for ph in ("blackout", "rferr") for d in ((5.0, 70.0, 130.0, 200.0, 400.0) if not ctx.quick else (70.0, 200.0))
             for y in (False, True)]
    began_n = 0
    for (viol, obs, began) in core.pmap(ctx, _auto_job, ajobs, chunksize=1):
        evals += 1
        outcomes.add(obs)
        began_n += 1 if began else 0
        if viol:
            ctx.violation(*viol)
    ctx.set("automatic_reset_scenarios", len(ajobs))
    ctx.set("automatic_resets_observed", began_n)
    if began_n == 0 and not ctx.violations:
        raise core.HarnessError("C10: no automatic reset was ever observed - vacuous")
    tjobs = [(ev, d) for ev in ("CLIENT_FACADE_TEARDOWN", "RUNNING_SPA_DISCONNECTED") for d in (0.0, 0.05, 0.15, 0.3)]
    for (viol, o) in core.pmap(ctx, _teardown_window_job, tjobs, chunksize=1):
        evals += 1
        outcomes.add(o)
        if viol:
            ctx.violation(*viol)
    ctx.set("teardown_window_runs", len(tjobs))
    why, counts = _cycles(6 if ctx.quick else 12)
    ctx.set("cycle_counts", [list(c) for c in counts])
    evals += 1
    if why:
        ctx.violation(f"C10|cycles|{why[0]}", why[1], {"mode": "cycles"})
    ctx.set("evaluations", evals)
    ctx.set("distinct_nontrivial", len(outcomes))
    ctx.set("rule", "cases = (reset|exit) x loop step of the baseline run (every step through discovery/handshake/early steady "
            "state, strided through the periodic tail, plus the first steps of every state) + timer-order deviations + reconnect "
            "cycles; distinct = distinct (kind, state, verdict, #endpoints, #tasks) digests")
    ctx.sample({"inject": "async_reset at loop step 300 (CONNECTING)", "then": "5 s, late STATP/ping reply to old endpoints, 8 s",
                "oracle": "old endpoints closed, old SPA/FACADE/LOC tasks done, old observers silent"})
    ctx.assume("endpoints are the VTransports handed out by the harness loop; 'promptly' = 5 virtual seconds (12 s for a "
               "discovery that was legitimately still running when reset was called)")


def replay(ctx, data):
    if data.get("mode") == "teardown-window":
        viol, _ = _teardown_window_job((data["suspend_at"], data["delay"]))
        if viol:
            ctx.violation(*viol)
        ctx.set("evaluations", 1)
        ctx.set("distinct_nontrivial", 2)
        ctx.set("rule", "replay")
        return
    if data.get("mode") == "auto":
        viol, _, _ = _auto_job((data["phase"], data["dur"], data["yielding"]))
        if viol:
            ctx.violation(*viol)
        ctx.set("evaluations", 1)
        ctx.set("distinct_nontrivial", 2)
        ctx.set("rule", "replay")
        return
    if data["mode"] == "cycles":
        why, _ = _cycles(6)
        if why:
            ctx.violation(f"C10|cycles|{why[0]}", why[1], data)
    else:
        _CAP["spa_tasks"], _CAP["endpoints"] = _measure_cap()
        res = _job(((data["kind"], data["k"], data["window"], data.get("variant", "blackout")), [tuple(p) for p in data["prefix"]]))
        ctx.merge_violations(res["violations"])
    ctx.set("evaluations", 1)
    ctx.set("distinct_nontrivial", 2)
    ctx.set("rule", "replay")
