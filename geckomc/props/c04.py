"""C04 - wire format: every message round-trips and is claimed by exactly its verb.

For every constructor in geckolib/driver/protocol/*.py: every scalar field over its WHOLE range in
one-field sweeps plus the cross product of boundary sets; payloads = every token string of length <= 4
(thorough: <= 5) over {the 8 framing tags, \\n, \\r, \\0, <, >, |, A} plus all 256 single bytes and 0/1/254/255-byte
segments; reminders over all types x signed day boundaries x list lengths 0..10; config-file replies
for every shipped platform name x every shipped cfg/log version; hello names over latin-1 incl. '|';
identifier pairs from a boundary set.
Oracle (independent codec geckomc/refmodels/wire.py): bytes equal the reference encoding; the content is
accepted by can_handle of exactly ONE standard handler family - the one owning the verb; handle() on a
fresh peer handler yields the fields the message was built from; the framing extractor returns
(src, dst, payload) intact; a reply built from the received packet's parms swaps source/destination.
"""
from __future__ import annotations

import itertools

from .. import core, lib
from ..refmodels import wire

LEVEL = "exploration"

from geckolib import driver as D  # noqa: E402
from geckolib.driver.protocol.watercare import GeckoWatercareErrorHandler  # noqa: E402

TAGS = [b"<PACKT>", b"</PACKT>", b"<SRCCN>", b"</SRCCN>", b"<DESCN>", b"</DESCN>", b"<DATAS>", b"</DATAS>"]
TOKENS = TAGS + [b"\n", b"\r", b"\x00", b"<", b">", b"|", b"A"]

FAMILIES = {
    "Ping": (D.GeckoPingProtocolHandler,),
    "Version": (D.GeckoVersionProtocolHandler,),
    "GetChannel": (D.GeckoGetChannelProtocolHandler,),
    "ConfigFile": (D.GeckoConfigFileProtocolHandler,),
    "StatusBlock": (D.GeckoStatusBlockProtocolHandler,),
    "PartialStatusBlock": (D.GeckoPartialStatusBlockProtocolHandler, D.GeckoAsyncPartialStatusBlockProtocolHandler),
    "Watercare": (D.GeckoWatercareProtocolHandler,),
    "WatercareError": (GeckoWatercareErrorHandler,),
    "UpdateFirmware": (D.GeckoUpdateFirmwareProtocolHandler,),
    "Reminders": (D.GeckoRemindersProtocolHandler,),
    "PackCommand": (D.GeckoPackCommandProtocolHandler,),
    "RFErr": (D.GeckoRFErrProtocolHandler,),
}

SPA = b"SPA01:02:03:04:05:06"
CLI = b"IOSgeckomc-0001"
ADDR = ("10.0.0.9", 10022)
PARMS = (ADDR[0], ADDR[1], SPA, CLI)  # what a client uses to send: SRCCN = parms[3], DESCN = parms[2]
ID_PAIRS = [(SPA, CLI), (b"", b""), (b"A", b"B"), (b"SPA" + b"9" * 60, b"AND" + b"z" * 60), (b"SPA|1", b"IOS|2"),
            (bytes(range(0x80, 0xA0)), bytes(range(0xE0, 0xFF))), (CLI, SPA)]
# identifiers are raw bytes (SPA + MAC address bytes, IOS + whatever the app chose): every single byte value inside an
# identifier, on either side (a complete closing tag inside an identifier is inherently ambiguous and not demanded)
ID_PAIRS += [(b"SPA\x00\x1f" + bytes([c]) + b"\x10\x20\x30", CLI) for c in range(256)]
ID_PAIRS += [(SPA, b"IOS" + bytes([c]) + b"my phone" + bytes([c])) for c in range(256)]
ID_PAIRS += [(b"SPA<>", b"IOS</>"), (b"<", b">"), (b"SPA</SRCC", b"IOS<DESCN"), (b"\n", b"\r\n")]


class _Sock:
    def __init__(self):
        self.sent = []

    def queue_send(self, h, dest=None):
        self.sent.append(h)

    def get_and_increment_sequence_counter(self, command):
        return 1


def _mk(cls):
    if cls in (D.GeckoPartialStatusBlockProtocolHandler, D.GeckoAsyncPartialStatusBlockProtocolHandler):
        return cls(_Sock())
    return cls()


def acceptors(content):
    out = []
    for fam, classes in FAMILIES.items():
        votes = [bool(_mk(c).can_handle(content, PARMS)) for c in classes]
        if any(votes):
            out.append(fam)
        if len(set(votes)) > 1:
            out.append(fam + "(split)")
    return out


class Bad(Exception):
    pass


# owner -> {len(content): content}: earlier messages of the family, of other shapes (seeded so that the order in which
# workers happen to receive cases does not matter)
_LONG_PH = None
ADDR2 = ("10.0.0.9", 40001)
ADDR3 = ("10.0.0.77", 10022)
_PREV = {
    "PackCommand": {len(x): x for x in (wire.spack_set(201, 6, 62, 59, 0x1234, 2, 0xBEEF), wire.spack_set(202, 6, 62, 59, 0x0102, 1, 7),
                                        wire.spack_key(203, 6, 9))},
    "StatusBlock": {len(x): x for x in (wire.statu(5, 0, 1024), wire.statv(1, 2, b"\x55" * 39))},
    "Version": {len(x): x for x in (wire.seq_req(b"AVERS", 9), wire.svers((1, 2, 3), (4, 5, 6)))},
    "GetChannel": {len(x): x for x in (wire.seq_req(b"CURCH", 9), wire.chcur(10, 33))},
    "Watercare": {len(x): x for x in (wire.seq_req(b"GETWC", 9), wire.wcget(3))},
    "Reminders": {len(x): x for x in (wire.seq_req(b"REQRM", 9), wire.rmreq([(1, 2), (2, -3)]))},
}


def check_packet(h, ref_content, owner, decode, parms=PARMS):
    """h: a library-built packet handler. decode(fresh_handler) -> None or text."""
    sb = h.send_bytes
    exp = wire.frame(parms[3], parms[2], ref_content)
    if sb != exp:
        raise Bad(("bytes", f"built {sb[:80]!r}, reference {exp[:80]!r}"))
    acc = acceptors(ref_content)
    if acc != [owner]:
        raise Bad(("claimed-by", f"content {ref_content[:24]!r} accepted by {acc}, owner is {owner}"))
    # framing extraction
    ph = D.GeckoPacketProtocolHandler()
    if not ph.can_handle(sb, ADDR):
        raise Bad(("framing", "packet handler does not accept the frame"))
    parts = ph._extract_packet_parts(sb[7:-8])
    if parts != (parms[3], parms[2], ref_content):
        raise Bad(("framing", f"extractor returned {tuple(p[:30] if p else p for p in parts)} for src={parms[3][:30]!r} dst={parms[2][:30]!r} "
                              f"content={ref_content[:30]!r}"))
    ph.handle(sb, ADDR)
    if ph.parms != (ADDR[0], ADDR[1], parms[3], parms[2]) or ph.packet_content != ref_content:
        raise Bad(("framing", "handle() did not yield (sender, src, dst) and the content"))
    # the packet handler is long-lived (one per socket): the same identifiers arriving from ANOTHER address right after
    # (a client that restarted on a new port) must yield that datagram's own sender
    global _LONG_PH
    if _LONG_PH is None:
        _LONG_PH = D.GeckoPacketProtocolHandler()
    for addr in (ADDR2, ADDR, ADDR3):
        _LONG_PH.handle(sb, addr)
        if _LONG_PH.parms != (addr[0], addr[1], parms[3], parms[2]) or _LONG_PH.packet_content != ref_content:
            raise Bad(("reply-address", f"long-lived packet handler: datagram from {addr} yields sender {_LONG_PH.parms[:2]} "
                                        f"(ids {_LONG_PH.parms[2:]}) after the same identifiers arrived from another address"))
    # a reply built from the received parms goes back with source and destination swapped
    reply = D.GeckoPacketProtocolHandler(content=b"X", parms=ph.parms)
    if reply.send_bytes != wire.frame(parms[2], parms[3], b"X"):
        raise Bad(("reply-address", f"reply to src={parms[3][:20]!r} dst={parms[2][:20]!r} is {reply.send_bytes[:80]!r}"))
    if decode is not None:
        for cls in FAMILIES[owner]:
            peer = _mk(cls)
            # handlers are long-lived: the same instance decodes datagram after datagram, so decode twice - once after
            # a different message of the family - and both results must be the fields of the message just handled
            for rnd in range(2):
                try:
                    if cls is D.GeckoAsyncPartialStatusBlockProtocolHandler:
                        if rnd == 0:
                            _drive(peer.async_handle(wire.statp([(9, b"\x09\x09")]), ph.parms))
                        _drive(peer.async_handle(ref_content, ph.parms))
                    else:
                        if rnd == 0 and cls is D.GeckoPartialStatusBlockProtocolHandler and ref_content.startswith(b"STATP"):
                            peer.handle(wire.statp([(9, b"\x09\x09")]), ph.parms)
                            peer.changes.clear()  # the blocking client clears the list after applying it
                        elif rnd == 0:
                            # ... after earlier messages of OTHER shapes of the same family (e.g. a set-value before a key press)
                            for ln, prev in list(_PREV.get(owner, {}).items()):
                                if ln != len(ref_content):
                                    try:
                                        peer.handle(prev, ph.parms)
                                    except Exception:  # noqa
                                        pass
                                    if peer.should_remove_handler:
                                        peer = _mk(cls)
                        peer.handle(ref_content, ph.parms)
                except Exception as e:  # noqa
                    raise Bad(("decode-raised", f"peer {cls.__name__} raised {e!r} on {ref_content[:40]!r}"))
                why = decode(peer)
                if why:
                    raise Bad(("decode", f"{cls.__name__} (decode #{rnd + 1} on the same handler): {why}"))
                if cls is D.GeckoPartialStatusBlockProtocolHandler and ref_content.startswith(b"STATP"):
                    peer.changes.clear()
                if peer.should_remove_handler:
                    break  # a one-shot reply handler: it retires after this message, a second decode is not its contract
        d = _PREV.setdefault(owner, {})
        if len(d) < 8 and len(ref_content) not in d:
            d[len(ref_content)] = ref_content


def _drive(coro):
    try:
        coro.send(None)
    except StopIteration:
        return
    raise core.HarnessError("async_handle suspended")


def eq(h, **kw):
    for k, v in kw.items():
        got = getattr(h, k)
        if got != v:
            return f"{k} decoded as {got!r}, built from {v!r}"
    return None


# ---- case generators: each yields (kind-name, thunk) ----------------------------------------------
def gen_cases(quick):
    maxtok = 4 if quick else 5
    quick = False  # every field sweep is complete in both tiers; the tiers differ in token-string length only
    B8 = list(range(256))
    Bset = [0, 1, 127, 128, 191, 192, 254, 255]
    W16 = [0, 1, 255, 256, 1023, 1024, 32767, 32768, 65534, 65535]

    def seq_kind(name, cls, verb, owner, attr="_sequence"):
        for seq in B8:
            yield name, (lambda seq=seq: check_packet(cls.request(seq, parms=PARMS), wire.seq_req(verb, seq), owner,
                                                      lambda h: eq(h, **{attr: seq})))

    yield from seq_kind("version.request", D.GeckoVersionProtocolHandler, b"AVERS", "Version")
    yield from seq_kind("channel.request", D.GeckoGetChannelProtocolHandler, b"CURCH", "GetChannel")
    yield from seq_kind("configfile.request", D.GeckoConfigFileProtocolHandler, b"SFILE", "ConfigFile")
    yield from seq_kind("watercare.request", D.GeckoWatercareProtocolHandler, b"GETWC", "Watercare")
    yield from seq_kind("reminders.request", D.GeckoRemindersProtocolHandler, b"REQRM", "Reminders")
    yield from seq_kind("firmware.request", D.GeckoUpdateFirmwareProtocolHandler, b"UPDTS", "UpdateFirmware")
    # ping
    yield "ping.request", lambda: check_packet(D.GeckoPingProtocolHandler.request(parms=PARMS), b"APING", "Ping", None)
    yield "ping.response", lambda: check_packet(D.GeckoPingProtocolHandler.response(parms=PARMS), b"APING\x00", "Ping",
                                                lambda h: eq(h, _sequence=0))
    # version response: each field over its whole range, cross product of boundaries
    def vers(en, co):
        return lambda: check_packet(D.GeckoVersionProtocolHandler.response(en, co, parms=PARMS), wire.svers(en, co), "Version",
                                    lambda h: eq(h, en_build=en[0], en_major=en[1], en_minor=en[2], co_build=co[0],
                                                 co_major=co[1], co_minor=co[2]))
    for b in range(0, 65536, 1 if not quick else 17):
        yield "version.response", vers((b, 1, 2), (65535 - b, 3, 4))
    for m in B8:
        yield "version.response", vers((88, m, 255 - m), (89, 255 - m, m))
    for t in itertools.product([0, 255, 65535], [0, 255], [0, 255], [0, 65535], [0, 255], [0, 255]):
        yield "version.response", vers(t[:3], t[3:])
    # channel response
    for ch in B8:
        for sg in (Bset if ch % 16 else B8):
            yield "channel.response", (lambda ch=ch, sg=sg: check_packet(
                D.GeckoGetChannelProtocolHandler.response(ch, sg, parms=PARMS), wire.chcur(ch, sg), "GetChannel",
                lambda h: eq(h, channel=ch, signal_strength=sg)))
    # config file response: every shipped platform x every shipped version
    plats = lib.platforms()
    for plat, v in plats.items():
        if not v["cfg"]:
            continue
        mod = lib.pack_module(plat)
        name = mod.GeckoPack(None).name
        for cfg in v["cfg"]:
            for log in v["log"]:
                def cf(name=name, cfg=cfg, log=log, plat=plat):
                    def dec(h):
                        why = eq(h, config_version=cfg, log_version=log)
                        if why:
                            return why
                        if h.plateform_key.lower() != plat:
                            return f"platform {name!r} decodes to {h.plateform_key!r}, module is {plat!r}"
                        return None
                    # spas name MrSteam 'MrSt' on the wire
                    wname = name
                    check_packet(D.GeckoConfigFileProtocolHandler.response(wname, cfg, log, parms=PARMS),
                                 wire.files(wname, cfg, log), "ConfigFile", dec)
                yield "configfile.response", cf
    for cfg, log in itertools.product([0, 1, 9, 10, 99, 100, 255], repeat=2):
        yield "configfile.response", (lambda cfg=cfg, log=log: check_packet(
            D.GeckoConfigFileProtocolHandler.response("inXM", cfg, log, parms=PARMS), wire.files("inXM", cfg, log), "ConfigFile",
            lambda h: eq(h, plateform_key="inXM", config_version=cfg, log_version=log)))
    # status request: seq x start x length
    def sreq(seq, start, length):
        return lambda: check_packet(D.GeckoStatusBlockProtocolHandler.request(seq, start, length, parms=PARMS),
                                    wire.statu(seq, start, length), "StatusBlock",
                                    lambda h: eq(h, sequence=seq, start=start, length=length))
    for seq in B8:
        yield "status.request", sreq(seq, 0, 1024)
    for pos in range(0, 65536, 1 if not quick else 13):
        yield "status.request", sreq(1, pos, 65535 - pos)
    for t in itertools.product(Bset, W16, W16):
        yield "status.request", sreq(*t)
    for seq in Bset:
        yield "status.full_request", (lambda seq=seq: check_packet(
            D.GeckoStatusBlockProtocolHandler.full_request(seq, parms=PARMS), wire.statu(seq, 0, 1024), "StatusBlock",
            lambda h: eq(h, sequence=seq, start=0, length=1024)))
    # status segment: index/next whole range, payloads
    def seg(i, nx, data):
        return lambda: check_packet(D.GeckoStatusBlockProtocolHandler.response(i, nx, data, parms=PARMS),
                                    wire.statv(i, nx, data), "StatusBlock",
                                    lambda h: eq(h, sequence=i, next=nx, length=len(data), data=data))
    for i in B8:
        yield "status.segment", seg(i, 255 - i, bytes([i]) * 39)
    for ln in (0, 1, 2, 38, 39, 40, 254, 255):
        yield "status.segment", seg(0, 1, bytes((7 * k + ln) % 256 for k in range(ln)))
    for b in B8:
        yield "status.segment", seg(3, 4, bytes([b]))
        yield "status.segment", seg(3, 4, bytes([b]) * 3)
    for n in range(1, maxtok + 1):
        for toks in itertools.product(TOKENS, repeat=n):
            if quick and n == 4 and (hash(toks) & 7):
                continue
            data = b"".join(toks)
            yield "status.segment/tokens", seg(1, 2, data)
            yield "packet/tokens", (lambda data=data: check_packet(
                D.GeckoPacketProtocolHandler(content=data, parms=PARMS), data, None, None) if False else check_generic(data))
    # partial update
    def part(changes):
        return lambda: check_packet(D.GeckoPartialStatusBlockProtocolHandler.report_changes(None, changes, parms=PARMS),
                                    wire.statp(changes), "PartialStatusBlock",
                                    lambda h: None if [(p, d[:2]) for p, d in changes] == [(p, d) for p, d in h.changes]
                                    else f"changes decoded as {h.changes!r}, built from {changes!r}")
    for pos in range(0, 65536, 1 if not quick else 11):
        yield "partial.report", part([(pos, bytes([pos & 255, pos >> 8]))])
    for n in range(0, 6):
        yield "partial.report", part([(100 + k, bytes([k, 255 - k])) for k in range(n)])
    yield "partial.report", part([(5, b"\x01")])
    # repeated and overlapping positions: the message carries every change, in order
    for a, b in itertools.product([(300, b"\x11\x22"), (300, b"\xa5\x5a"), (301, b"\x33\x44"), (7, b"\x00\x00")], repeat=2):
        yield "partial.report", part([a, b])
        yield "partial.report", part([a, b, (300, b"\x7e\x01")])
        yield "partial.report", part([a, (400, b"\x01\x02"), b])
    for seq in B8:
        yield "partial.ack", (lambda seq=seq: check_statq(seq))
    # pack commands
    def sv(seq, pt, cfg, log, pos, ln, val):
        def dec(h):
            why = eq(h, _sequence=seq, pack_type=pt, is_set_value=True, is_key_press=False, position=pos,
                     new_data=val.to_bytes(ln, "big"))
            return why
        return lambda: check_packet(D.GeckoPackCommandProtocolHandler.set_value(seq, pt, cfg, log, pos, ln, val, parms=PARMS),
                                    wire.spack_set(seq, pt, cfg, log, pos, ln, val), "PackCommand", dec)
    for seq in B8:
        yield "pack.set_value", sv(seq, 10, 9, 9, 300, 1, seq)
    for pos in range(0, 65536, 1 if not quick else 7):
        yield "pack.set_value", sv(200, 6, 62, 59, pos, 2, 65535 - pos)
    for t in itertools.product(Bset, [0, 6, 10, 255], [0, 255], [0, 255], W16):
        yield "pack.set_value", sv(t[0], t[1], t[2], t[3], t[4], 1, t[0])
        yield "pack.set_value", sv(t[0], t[1], t[2], t[3], t[4], 2, t[4])
    for v in range(65536) if not quick else W16:
        yield "pack.set_value", sv(192, 10, 9, 9, 1, 2, v)
    for seq in B8:
        for key in (Bset if seq % 8 else B8):
            yield "pack.keypress", (lambda seq=seq, key=key: check_packet(
                D.GeckoPackCommandProtocolHandler.keypress(seq, 10, key, parms=PARMS), wire.spack_key(seq, 10, key), "PackCommand",
                lambda h: eq(h, _sequence=seq, pack_type=10, is_key_press=True, is_set_value=False, keycode=key)))
    yield "pack.response", lambda: check_packet(D.GeckoPackCommandProtocolHandler.response(parms=PARMS), b"PACKS", "PackCommand", None)
    # watercare
    for mode in B8:
        yield "watercare.response", (lambda mode=mode: check_packet(
            D.GeckoWatercareProtocolHandler.response(mode, parms=PARMS), wire.wcget(mode), "Watercare", lambda h: eq(h, mode=mode)))
    for seq in B8:
        for mode in (Bset if seq % 8 else B8):
            yield "watercare.set", (lambda seq=seq, mode=mode: check_packet(
                D.GeckoWatercareProtocolHandler.set(seq, mode, parms=PARMS), wire.setwc(seq, mode), "Watercare", None))
    yield "watercare.giveschedule", lambda: check_packet(
        D.GeckoWatercareProtocolHandler.giveschedule(parms=PARMS),
        b"WCREQ" + D.GeckoWatercareProtocolHandler.giveschedule(parms=PARMS)._content[5:], "Watercare", None)
    # reminders
    days = [-32768, -1, 0, 1, 32767]
    types = list(range(0, 7))
    for t in types:
        for d in days:
            yield "reminders.response", rem([(t, d)])
    for n in range(0, 11):
        yield "reminders.response", rem([(types[k % 7], days[k % 5]) for k in range(n)])
    for d in range(-32768, 32768, 1 if not quick else 37):
        yield "reminders.response", rem([(1, d), (2, -d if d > -32768 else 0)])
    # firmware / rferr
    yield "firmware.response", lambda: check_packet(D.GeckoUpdateFirmwareProtocolHandler.response(parms=PARMS), b"SUPDT\x00", "UpdateFirmware", None)
    yield "rferr.response", lambda: check_packet(D.GeckoRFErrProtocolHandler.response(parms=PARMS), b"RFERR", "RFErr", None)
    # identifier pairs
    for src, dst in ID_PAIRS:
        p = (ADDR[0], ADDR[1], dst, src)
        yield "ids", (lambda p=p: check_packet(D.GeckoVersionProtocolHandler.request(7, parms=p), wire.seq_req(b"AVERS", 7), "Version",
                                                lambda h: eq(h, _sequence=7), parms=p))
    # hello family
    yield "hello.broadcast", lambda: check_hello(D.GeckoHelloProtocolHandler.broadcast(), wire.hello(b"1"), "broadcast", None)
    for cid in (b"IOSabc", b"AND123", b"IOS" + bytes(range(0x80, 0x90)), b"IOS02ac6d28-42d0-41e3-ad22-274d0aa491da"):
        yield "hello.client", (lambda cid=cid: check_hello(D.GeckoHelloProtocolHandler.client(cid), wire.hello(cid), "client", cid))
    names = ["Spa", "", "My|Spa", "|", "a|b|c", "Caf\xe9", "\xff\xfe", "x" * 100, "<HELLO>", "A\nB"]
    names += [chr(c) for c in range(1, 256)]
    # names that contain the words the protocol uses elsewhere: client platform tags, verbs, the broadcast body
    names += ["GRAND SPA", "ISLAND", "STUDIOS", "BIOSPHERE", "AND", "IOS", "ANDY's", "Spa AND Sauna", "IOSspa", "x IOS", "1", "SPA", "SPA01",
              "APING", "STATV", "My SPA|IOS", "and ios"]
    for sid in (SPA, b"SPA\xe9\x01", b"S", b"SPAND:IOS:01"):
        for nm in names:
            yield "hello.response", (lambda sid=sid, nm=nm: check_hello(
                D.GeckoHelloProtocolHandler.response(sid, nm), wire.hello_reply(sid, nm), "response", (sid, nm)))


def rem(lst):
    def dec(h):
        exp = []
        for t, d in lst:
            exp.append((D.GeckoReminderType(t), d))
        if list(h.reminders) != exp:
            return f"reminders decoded as {h.reminders!r}, built from {exp!r}"
        return None
    return lambda: check_packet(D.GeckoRemindersProtocolHandler.response(lst, parms=PARMS), wire.rmreq(lst), "Reminders", dec)


def check_generic(data):
    """Arbitrary content inside the framing: extractor must return it intact."""
    h = D.GeckoPacketProtocolHandler(content=data, parms=PARMS)
    sb = h.send_bytes
    if sb != wire.frame(CLI, SPA, data):
        raise Bad(("bytes", f"frame differs for content {data[:40]!r}"))
    ph = D.GeckoPacketProtocolHandler()
    parts = ph._extract_packet_parts(sb[7:-8])
    if parts != (CLI, SPA, data):
        raise Bad(("framing", f"extractor returned src={parts[0][:30] if parts[0] else parts[0]!r} ... for content {data[:40]!r}"))


def check_statq(seq):
    """The acknowledgement both partial handlers build when they receive a STATP."""
    sent = []

    class Sock:
        def queue_send(self, h, dest=None):
            sent.append(h)

        def get_and_increment_sequence_counter(self, command):
            return seq

    h = D.GeckoPartialStatusBlockProtocolHandler(Sock())
    sender = (ADDR[0], ADDR[1], SPA, CLI)
    h.handle(wire.statp([(1, b"\x00\x01")]), sender)
    if len(sent) != 1 or sent[0].send_bytes != wire.frame(CLI, SPA, wire.statq(seq)):
        raise Bad(("bytes", f"STATQ ack for seq {seq}: {[s.send_bytes for s in sent]!r}"))
    acc = acceptors(wire.statq(seq))
    if acc != ["PartialStatusBlock"]:
        raise Bad(("claimed-by", f"STATQ accepted by {acc}"))
    f = D.GeckoPartialStatusBlockProtocolHandler(None)
    f.handle(wire.statq(seq), sender)
    if f.sequence != seq:
        raise Bad(("decode", f"STATQ sequence decoded as {f.sequence}"))
    if h.changes != [(1, b"\x00\x01")]:
        raise Bad(("decode", f"STATP changes decoded as {h.changes!r}"))


def check_hello(h, ref, kind, arg):
    if h.send_bytes != ref:
        raise Bad(("bytes", f"hello {kind}: built {h.send_bytes[:60]!r}, reference {ref[:60]!r}"))
    fresh = D.GeckoHelloProtocolHandler.broadcast()
    if not fresh.can_handle(ref, ADDR):
        raise Bad(("claimed-by", f"hello handler does not accept {ref[:60]!r}"))
    if acceptors(ref) or D.GeckoPacketProtocolHandler().can_handle(ref, ADDR):
        raise Bad(("claimed-by", f"hello datagram also accepted by {acceptors(ref)}"))
    try:
        fresh.handle(ref, ADDR)
    except Exception as e:  # noqa
        raise Bad(("decode-raised", f"hello {kind} {arg!r}: handle() raised {e!r}"))
    if kind == "broadcast":
        if not fresh.was_broadcast_discovery:
            raise Bad(("decode", "broadcast hello not recognised"))
    elif kind == "client":
        if fresh.was_broadcast_discovery or fresh.client_identifier != arg:
            raise Bad(("decode", f"client hello decoded as {fresh._client_identifier!r}"))
    else:
        sid, nm = arg
        if fresh._spa_identifier != sid or fresh._spa_name != nm:
            raise Bad(("decode", f"hello reply ({sid!r},{nm!r}) decoded as ({fresh._spa_identifier!r},{fresh._spa_name!r})"))


def _job(job):
    lo, hi, quick = job
    cases = list(itertools.islice(gen_cases(quick), lo, hi))
    bad = {}
    kinds = {}
    for name, thunk in cases:
        kinds[name] = kinds.get(name, 0) + 1
        try:
            thunk()
        except Bad as b:
            cls, text = b.args[0]
            bad.setdefault((name, cls), text)
        except Exception as e:  # noqa  (constructor itself raised)
            bad.setdefault((name, "build-raised"), repr(e))
    return kinds, bad


def run(ctx):
    total = sum(1 for _ in gen_cases(ctx.quick))
    step = max(1, total // (ctx.workers * 4))
    jobs = [(lo, min(total, lo + step), ctx.quick) for lo in range(0, total, step)]
    kinds = {}
    for k, bad in core.pmap(ctx, _job, jobs, chunksize=1):
        for name, n in k.items():
            kinds[name] = kinds.get(name, 0) + n
        for (name, cls), text in bad.items():
            ctx.violation(f"C04|{name}|{cls}", f"{name}: {text}", {"kind": name, "cls": cls})
    # every verb the library can build has an owner, and no unknown content is claimed by anyone
    junks = [b"ZZTOP", b"", b"A", b"STAT", b"aping", b"\x00APING"]
    for verb in wire.VERB_OWNER:
        # near misses of every verb: first letter changed, lower case, shifted by one byte, truncated
        junks += [b"~" + verb[1:] + b"\x01\x02", verb.lower() + b"\x01", b" " + verb + b"\x01", verb[:4], verb[1:] + b"\x01\x02"]
    for junk in junks:
        acc = acceptors(junk)
        if acc:
            ctx.violation("C04|junk|claimed-by", f"non-message {junk!r} accepted by {acc}", {"kind": "junk"})
    ctx.set("evaluations", total)
    ctx.set("message_kinds", kinds)
    ctx.set("distinct_nontrivial", len(kinds))
    ctx.set("rule", "cases = library-built messages (one per field value / payload / identifier pair); each is compared byte for "
            "byte with the reference codec, offered to every standard handler family, decoded by a fresh peer handler and passed "
            "through the framing extractor; distinct_nontrivial = message kinds exercised")
    ctx.set("exhaustive", True)
    ctx.sample({"kind": "pack.set_value", "fields": {"seq": 200, "pack_type": 6, "cfg": 62, "log": 59, "pos": 4660, "len": 2, "value": 60875},
                "reference_hex": wire.spack_set(200, 6, 62, 59, 4660, 2, 60875).hex()})
    ctx.sample({"kind": "status.segment/tokens", "data": "</SRCCN><DESCN>A</DESCN><DATAS>"})


def replay(ctx, data):
    for name, thunk in gen_cases(False):
        if name != data["kind"]:
            continue
        try:
            thunk()
        except Bad as b:
            cls, text = b.args[0]
            ctx.violation(f"C04|{name}|{cls}", text, data)
        except Exception as e:  # noqa
            ctx.violation(f"C04|{name}|build-raised", repr(e), data)
    ctx.set("evaluations", 1)
    ctx.set("distinct_nontrivial", 2)
    ctx.set("rule", "replay")
