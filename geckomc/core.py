"""Shared runner plumbing: context, evidence writer, known findings, replay artefacts, worker pool.

Exit codes (see DESIGN.md): 0 = held on everything explored, 1 = VIOLATION (unlisted),
2 = harness error (a broken check, never a verdict).
"""
from __future__ import annotations

import fnmatch
import hashlib
import json
import multiprocessing as mp
import os
import sys
import time
import traceback

VERIF = os.path.dirname(os.path.dirname(os.path.abspath(__file__)))
REPO = os.environ.get("GECKOMC_REPO", "/repo")
# evidence describes /repo only: runs against scratch copies (mutants) write elsewhere
_SCRATCH = os.path.abspath(REPO) != "/repo"
EVIDENCE_DIR = os.path.join(VERIF, ".cache", "evidence-scratch") if _SCRATCH else os.path.join(VERIF, "evidence")
REPLAY_DIR = os.path.join(VERIF, ".cache", "replays-scratch") if _SCRATCH else os.path.join(VERIF, "replays")
KNOWN_FILE = os.path.join(VERIF, "known_findings.json")


class HarnessError(Exception):
    """Something is wrong with the harness (not with geckolib). Exit 2."""


class RigFailure(Exception):
    """The fault-free set-up of a scenario failed in the code under test (e.g. the handshake
    against the bundled simulator does not complete).  Harnesses decide whether that is a
    violation of *their* property or something they cannot judge (-> HarnessError)."""

    def __init__(self, stage, detail=""):
        super().__init__(f"{stage}: {detail}")
        self.stage = stage
        self.detail = detail


def use_repo():
    """Put the working tree under test first on sys.path and prove we import from it."""
    src = os.path.join(REPO, "src")
    if sys.path[0] != src:
        sys.path.insert(0, src)
    import geckolib  # noqa

    if not os.path.abspath(geckolib.__file__).startswith(os.path.abspath(src)):
        raise HarnessError(f"geckolib imported from {geckolib.__file__}, wanted {src}")
    return geckolib


def digest(obj) -> str:
    return hashlib.sha1(
        json.dumps(obj, sort_keys=True, default=repr).encode()
    ).hexdigest()[:12]


def jsonable(o):
    if isinstance(o, (bytes, bytearray)):
        return {"hex": bytes(o).hex()}
    if isinstance(o, (list, tuple)):
        return [jsonable(x) for x in o]
    if isinstance(o, dict):
        return {str(k): jsonable(v) for k, v in o.items()}
    if isinstance(o, (str, int, float, bool)) or o is None:
        return o
    if isinstance(o, (set, frozenset)):
        return sorted((jsonable(x) for x in o), key=repr)
    return repr(o)


def unjson_bytes(o):
    if isinstance(o, dict) and set(o.keys()) == {"hex"}:
        return bytes.fromhex(o["hex"])
    if isinstance(o, list):
        return [unjson_bytes(x) for x in o]
    if isinstance(o, dict):
        return {k: unjson_bytes(v) for k, v in o.items()}
    return o


class Known:
    def __init__(self):
        self.findings = []
        self.fixed = []
        if os.path.exists(KNOWN_FILE):
            with open(KNOWN_FILE) as f:
                d = json.load(f)
            self.findings = d.get("findings", [])
            self.fixed = d.get("fixed", [])

    def match(self, pid, key):
        for f in self.findings:
            if f["property"] != pid:
                continue
            if f["key"] == key or (
                f.get("glob") and fnmatch.fnmatchcase(key, f["key"])
            ):
                return f
        return None


class Ctx:
    """Handed to every property harness."""

    MAX_SAMPLES = 12

    def __init__(self, pid, tier, seed, workers, level):
        self.pid = pid
        self.tier = tier
        self.seed = seed
        self.workers = workers
        self.level = level
        self.cov = {}
        self.samples = []
        self.assumptions = []
        self.violations = {}  # key -> (what, replay)
        self.caps_hit = []
        self.t0 = time.time()
        self.replaying = False

    # -- recording -----------------------------------------------------------------
    def add(self, name, n=1):
        self.cov[name] = self.cov.get(name, 0) + n

    def set(self, name, v):
        self.cov[name] = v

    def sample(self, obj, force=False):
        if force or len(self.samples) < self.MAX_SAMPLES:
            self.samples.append(jsonable(obj))

    def assume(self, text):
        if text not in self.assumptions:
            self.assumptions.append(text)

    def cap(self, text):
        if text not in self.caps_hit:
            self.caps_hit.append(text)

    def violation(self, key, what, replay):
        """key identifies the *specific* failing input / call site / history class."""
        if key not in self.violations:
            self.violations[key] = (what, jsonable(replay))

    def merge_violations(self, vs):
        for key, what, replay in vs:
            self.violation(key, what, replay)

    def log(self, *a):
        print(f"[{self.pid} {time.time()-self.t0:6.1f}s]", *a, file=sys.stderr, flush=True)

    @property
    def quick(self):
        return self.tier == "quick"


# ---------------------------------------------------------------------------------------
# worker pool (long-lived fork workers; nothing is forked per execution)

_POOL = None


def _init_worker():
    # workers inherit the parent's imports and logging setup (fork)
    pass


def pool(workers):
    global _POOL
    if _POOL is None:
        ctx = mp.get_context("fork")
        _POOL = ctx.Pool(workers, initializer=_init_worker)
    return _POOL


def close_pool():
    global _POOL
    if _POOL is not None:
        _POOL.close()
        _POOL.join()
        _POOL = None


def pmap(ctx, fn, items, chunksize=None):
    """Ordered parallel map on the long-lived pool; falls back to serial for 1 worker."""
    items = list(items)
    if ctx.workers <= 1 or len(items) <= 1:
        return [fn(x) for x in items]
    if chunksize is None:
        chunksize = max(1, min(256, len(items) // (ctx.workers * 8) or 1))
    return pool(ctx.workers).map(fn, items, chunksize)


def pimap(ctx, fn, items, chunksize=1):
    """Unordered parallel iterator."""
    items = list(items)
    if ctx.workers <= 1 or len(items) <= 1:
        for x in items:
            yield fn(x)
        return
    yield from pool(ctx.workers).imap_unordered(fn, items, chunksize)


# ---------------------------------------------------------------------------------------
# finishing: evidence, known findings, VIOLATION lines


_UNITTEST = '''"""Replays one recorded violation of {pid} ({key}) against the current tree, without the explorer.
Run: GECKOMC_REPO=/repo /venv/bin/python {path_test}   (passes once the violation is gone)"""
import os, subprocess, sys, unittest


class Replay(unittest.TestCase):
    def test_replay(self):
        r = subprocess.run([os.path.join({verif!r}, "check"), {pid!r}, "--replay", {path!r}], capture_output=True, text=True)
        self.assertNotIn("VIOLATION", r.stdout, r.stdout)
        self.assertEqual(r.returncode, 0, r.stdout + r.stderr)


if __name__ == "__main__":
    unittest.main()
'''.replace("{path_test}", "<this file>")


def finish(ctx, manifest_level=None):
    known = Known()
    os.makedirs(EVIDENCE_DIR, exist_ok=True)
    unlisted = []
    listed = []
    for key, (what, replay) in ctx.violations.items():
        f = known.match(ctx.pid, key)
        if f is not None:
            listed.append((key, f))
        else:
            unlisted.append((key, what, replay))
    for key, f in listed:
        print(f"KNOWN-FINDING: property={ctx.pid} {f['what']} [key={key}]", flush=True)
    paths = []
    if unlisted and not ctx.replaying:
        os.makedirs(REPLAY_DIR, exist_ok=True)
    for key, what, replay in unlisted:
        path = "(replay)"
        if not ctx.replaying:
            path = os.path.join(REPLAY_DIR, f"{ctx.pid}-{digest([key, replay])}.json")
            with open(path, "w") as fh:
                json.dump(
                    {"property": ctx.pid, "key": key, "what": what, "replay": replay},
                    fh,
                    indent=1,
                    sort_keys=True,
                )
            # a plain unit test that replays exactly this case without the explorer
            with open(path[:-5] + "_test.py", "w") as fh:
                fh.write(_UNITTEST.format(pid=ctx.pid, path=path, key=key, verif=VERIF))
        paths.append(path)
        print(f"VIOLATION property={ctx.pid} replay={path}", flush=True)
        print(f"  key : {key}", flush=True)
        print(f"  what: {what}", flush=True)

    cov = dict(ctx.cov)
    cov["samples"] = ctx.samples or [
        "no sample recorded"
    ]
    if ctx.caps_hit:
        cov["caps_hit"] = ctx.caps_hit
        cov["exhaustive"] = False
    cov.setdefault("known_findings_seen", sorted(k for k, _ in listed))
    ev = {
        "property_id": ctx.pid,
        "tier": ctx.tier,
        "seed": ctx.seed,
        "level": ctx.level,
        "coverage": cov,
        "assumptions": ctx.assumptions,
        "wall_s": round(time.time() - ctx.t0, 3),
        "violations": len(unlisted),
    }
    if not ctx.replaying:
        tmp = os.path.join(EVIDENCE_DIR, f".{ctx.pid}.json.tmp")
        with open(tmp, "w") as fh:
            json.dump(ev, fh, indent=1, sort_keys=True)
        os.replace(tmp, os.path.join(EVIDENCE_DIR, f"{ctx.pid}.json"))
    summary = {k: v for k, v in cov.items() if isinstance(v, (int, float, bool, str))}
    print(
        f"{ctx.pid} tier={ctx.tier} violations={len(unlisted)} known={len(listed)} "
        f"wall={ev['wall_s']}s {json.dumps(summary, sort_keys=True)}",
        flush=True,
    )
    return 1 if unlisted else 0


def fatal(msg):
    print(f"HARNESS-ERROR: {msg}", file=sys.stderr, flush=True)
    traceback.print_exc()
    close_pool()
    os._exit(2)
