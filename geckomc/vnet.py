"""E2 - VNet: in-memory UDP between VLoop endpoints and peers, with an explorer-owned fault injector.

Every sendto() is logged; its *fate* is a choice point when the harness's `fates` policy offers
more than one option for it.  Deliveries are timers on the VLoop (so arrival order/jitter is part
of the 'timer' choice points as well).  No socket is ever opened.
"""
from __future__ import annotations

import asyncio

from .core import HarnessError

BROADCAST = "<broadcast>"


class VTransport(asyncio.DatagramTransport):
    def __init__(self, net, addr, protocol, tag=None):
        super().__init__()
        self.net = net
        self.addr = addr
        self.protocol = protocol
        self.closed = False
        self.close_calls = 0
        self.tag = tag
        self.created_at = net.loop.time()
        self.lost_called = 0

    def sendto(self, data, addr=None):
        if self.closed:
            self.net.log.append((self.net.loop.time(), "send-on-closed", self.addr, addr, bytes(data)))
            return
        self.net.send(self.addr, addr, bytes(data))

    def close(self):
        self.close_calls += 1
        if self.closed:
            return
        self.closed = True
        self.net.loop.call_soon(self._lost)

    def _lost(self):
        self.lost_called += 1
        self.protocol.connection_lost(None)

    def abort(self):
        self.close()

    def is_closing(self):
        return self.closed

    def get_extra_info(self, name, default=None):
        if name == "sockname":
            return self.addr
        return default

    def _deliver(self, data, src):
        if self.closed:
            self.net.log.append((self.net.loop.time(), "rx-on-closed", src, self.addr, data))
            return
        self.protocol.datagram_received(data, src)

    def __repr__(self):
        return f"<VTransport {self.addr} closed={self.closed}>"


class VNet:
    CLIENT_IP = "10.0.0.2"

    def __init__(self, loop, latency=0.005):
        self.loop = loop
        loop.net = self
        self.latency = latency
        self.transports = []
        self.peers = {}  # addr -> peer (object with on_datagram(data, src))
        self.log = []  # (t, what, src, dst, data)
        self.sent = []  # (t, src, dst, data) every sendto of every endpoint/peer
        self._port = 50000
        # fates(src, dst, data) -> list of fate names, first = default.  None = always deliver.
        self.fates = None
        self.tap = None  # tap(t, src, dst, data) called for every send (before its fate)
        self.n_sent = 0
        self.on_endpoint = None  # on_endpoint(transport, protocol): called before any traffic

    # -- endpoints ------------------------------------------------------------------
    def create_endpoint(self, protocol_factory, local_addr=None, remote_addr=None, **kw):
        self._port += 1
        addr = tuple(local_addr) if local_addr else (self.CLIENT_IP, self._port)
        protocol = protocol_factory()
        tr = VTransport(self, addr, protocol)
        self.transports.append(tr)
        if self.on_endpoint is not None:
            self.on_endpoint(tr, protocol)
        protocol.connection_made(tr)
        return tr, protocol

    def add_peer(self, addr, peer):
        self.peers[tuple(addr)] = peer
        peer.net = self
        peer.addr = tuple(addr)

    def open_transports(self):
        return [t for t in self.transports if not t.closed]

    # -- sending --------------------------------------------------------------------
    def send(self, src, dst, data, base_delay=0.0):
        now = self.loop.time()
        self.n_sent += 1
        self.sent.append((now, src, dst, data))
        if self.tap is not None:
            self.tap(now, src, dst, data)
        if dst is None:
            raise HarnessError(f"sendto without destination from {src}: {data!r}")
        dst = (dst[0], dst[1])
        fate = "deliver"
        if self.fates is not None:
            opts = self.fates(src, dst, data)
            if opts and len(opts) > 1:
                fate = opts[self.loop.chooser.choose("fate", len(opts))]
            elif opts:
                fate = opts[0]
        self.log.append((now, fate, src, dst, data))
        if fate == "drop":
            return
        if fate == "error":
            # the OS refused the send: asyncio reports it to the protocol and keeps the endpoint open
            for tr in self.transports:
                if tr.addr == src and not tr.closed:
                    self.loop.call_soon(tr.protocol.error_received, OSError(101, "Network is unreachable (injected)"))
            return
        delays = [self.latency + base_delay]
        if fate == "dup":
            delays.append(self.latency + base_delay)
        elif fate.startswith("delay:"):
            delays = [self.latency + base_delay + float(fate.split(":")[1])]
        elif fate.startswith("dupdelay:"):
            delays.append(self.latency + base_delay + float(fate.split(":")[1]))
        elif fate != "deliver":
            raise HarnessError(f"unknown fate {fate}")
        for d in delays:
            self.loop.call_at(now + d, self._arrive, src, dst, data)

    def _arrive(self, src, dst, data):
        if dst[0] == BROADCAST:
            for addr, peer in list(self.peers.items()):
                if addr[1] == dst[1]:
                    peer.on_datagram(data, src)
            return
        peer = self.peers.get(dst)
        if peer is not None:
            peer.on_datagram(data, src)
            return
        if dst[0].endswith(".255"):
            # directed (sub-net) broadcast: every peer on that /24 listening on the port
            pre = dst[0].rsplit(".", 1)[0] + "."
            for addr, peer in list(self.peers.items()):
                if addr[0].startswith(pre) and addr[1] == dst[1]:
                    peer.on_datagram(data, src)
            return
        for tr in self.transports:
            if tr.addr == dst:
                tr._deliver(data, src)
                return
        self.log.append((self.loop.time(), "no-such-endpoint", src, dst, data))

    def inject(self, dst_transport, data, src, delay=0.0):
        """Harness-originated datagram straight into a client endpoint (no fate)."""
        self.loop.call_at(self.loop.time() + delay, dst_transport._deliver, data, src)
