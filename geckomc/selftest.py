"""setup_cmd: prove the engines are deterministic and replayable before any verdict is trusted.

* the whole stack is run twice on the default schedule and twice on one recorded non-default
  schedule (two 'timer' deviations + nothing else): observations must be identical;
* a prefix replay that meets a different choice arity must raise ReplayDivergence;
* the reference framing codec agrees with itself.
"""
from __future__ import annotations

import hashlib

from . import core, lib
from .rig import Rig
from .vloop import Chooser, ReplayDivergence


def _observe(prefix):
    r = Rig(Chooser(prefix), window=0.0)
    ok = r.connect(60.0)
    r.loop.run_for(5.0)
    obs = hashlib.sha1()
    obs.update(repr(ok).encode())
    for t, e, s, f, txt in r.man.events:
        obs.update(f"{t:.6f}|{e.name}|{s.name}|{f}|{txt};".encode())
    for t, src, dst, data in r.net.sent:
        obs.update(f"{t:.6f}|{src}|{dst}|".encode() + data)
    trace = list(r.chooser.trace)
    r.exit()
    left = r.close()
    return obs.hexdigest(), trace, left, list(lib.LOG.records), ok


def main():
    d0, trace, left, errs, ok = _observe(())
    if not ok:
        print("selftest: baseline stack does not reach CONNECTED", errs[:3])
        return 2
    d0b, trace_b, _, _, _ = _observe(())
    if d0 != d0b or trace != trace_b:
        print("selftest: default schedule not deterministic")
        return 2
    # one recorded deviating schedule
    idx = [i for i, (k, n, c) in enumerate(trace) if n > 1]
    if len(idx) < 4:
        print("selftest: too few choice points", len(idx))
        return 2
    i1 = idx[len(idx) // 3]
    pre = list(trace[:i1]) + [(trace[i1][0], trace[i1][1], 1)]
    d1, t1, _, _, _ = _observe(pre)
    d1b, t1b, _, _, _ = _observe(pre)
    if d1 != d1b or t1 != t1b:
        print("selftest: recorded schedule did not replay identically")
        return 2
    # divergence must be loud
    bad = list(trace[:i1]) + [(trace[i1][0], trace[i1][1] + 7, 1)]
    try:
        _observe(bad)
        print("selftest: replay divergence not detected")
        return 2
    except ReplayDivergence:
        pass
    print(
        f"selftest ok: baseline {len(trace)} choice points, default digest {d0[:10]}, "
        f"deviating digest {d1[:10]} (replayed twice), divergence detected, leftover tasks {left}"
    )
    return 0
