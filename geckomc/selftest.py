"""setup_cmd: prove the engines are deterministic and replayable before any verdict is trusted.

* the whole stack is run twice on the default schedule and twice on one recorded non-default
  schedule (two 'timer' deviations + nothing else): observations must be identical;
* a prefix replay that meets a different choice arity must raise ReplayDivergence;
* the reference framing codec agrees with itself.
"""
from __future__ import annotations

import hashlib

from . import core, lib
from .rig import Rig
from .vloop import Chooser, ReplayDivergence


def _observe(prefix):
    r = Rig(Chooser(prefix), window=0.0)
    ok = r.connect(60.0)
    r.loop.run_for(5.0)
    obs = hashlib.sha1()
    obs.update(repr(ok).encode())
    for t, e, s, f, txt in r.man.events:
        obs.update(f"{t:.6f}|{e.name}|{s.name}|{f}|{txt};".encode())
    for t, src, dst, data in r.net.sent:
        obs.update(f"{t:.6f}|{src}|{dst}|".encode() + data)
    trace = list(r.chooser.trace)
    r.exit()
    left = r.close()
    return obs.hexdigest(), trace, left, list(lib.LOG.records), ok


def main():
    d0, trace, left, errs, ok = _observe(())
    if not ok:
        print("selftest: baseline stack does not reach CONNECTED", errs[:3])
        return 2
    d0b, trace_b, _, _, _ = _observe(())
    if d0 != d0b or trace != trace_b:
        print("selftest: default schedule not deterministic")
        return 2
    # recorded deviating schedules: each must replay identically, and at least one of them must change what is
    # observed (otherwise the choice points would not be steering anything)
    idx = [i for i, (k, n, c) in enumerate(trace) if n > 1]
    if len(idx) < 4:
        print("selftest: too few choice points", len(idx))
        return 2
    distinct = 0
    d1 = d0
    for frac in (8, 5, 3, 2):
        i1 = idx[len(idx) // frac]
        pre = list(trace[:i1]) + [(trace[i1][0], trace[i1][1], trace[i1][1] - 1)]
        d1, t1, _, _, ok1 = _observe(pre)
        d1b, t1b, _, _, _ = _observe(pre)
        if d1 != d1b or t1 != t1b:
            print("selftest: recorded schedule did not replay identically")
            return 2
        if d1 != d0:
            distinct += 1
    if distinct == 0:
        print("selftest: no deviation changed the observations - choice points are not steering the execution")
        return 2
    i1 = idx[len(idx) // 3]
    # divergence must be loud
    bad = list(trace[:i1]) + [(trace[i1][0], trace[i1][1] + 7, 1)]
    try:
        _observe(bad)
        print("selftest: replay divergence not detected")
        return 2
    except ReplayDivergence:
        pass
    print(
        f"selftest ok: baseline {len(trace)} choice points, default digest {d0[:10]}, "
        f"{distinct}/4 deviating schedules changed the observations (each replayed twice identically), "
        f"divergence detected, leftover tasks {left}"
    )
    return 0
