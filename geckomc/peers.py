"""Peers on the VNet: the real bundled simulator (SimPeer) and a spa model on top of it (ModelSpa)."""
from __future__ import annotations

import struct

from . import lib

SPA_ADDR = ("10.0.0.9", 10022)
SPA_ID = b"SPA01:02:03:04:05:06"  # what the simulator's hello reply carries


class SimPeer:
    """The *real* GeckoSimulator object, fed through its own receive handlers.  Replies are
    drained from its send queue and put on the VNet, spaced like the engine's send throttle."""

    THROTTLE = 0.02

    def __init__(self, snapshot=None, spacing=THROTTLE):
        self.sim = lib.make_simulator(snapshot or lib.default_snapshot())
        self.net = None
        self.addr = None
        self.spacing = spacing
        self.mode = "healthy"  # healthy | blackout | rferr
        self.drop_request = None  # fn(data, src) -> True to ignore a request (lossy phases)
        self.received = []  # (t, src, data)
        self.request_hook = None
        self.reply_filter = None  # fn(datagram) -> datagram: a spa whose answer is corrupted / from other firmware

    @property
    def block(self):
        return self.sim.structure.status_block

    def set_block(self, block):
        self.sim.structure.set_status_block(block)

    def set_mode(self, mode):
        self.mode = mode
        self.sim._do_rferr = mode == "rferr"

    def on_datagram(self, data, src):
        t = self.net.loop.time()
        self.received.append((t, src, data))
        if self.mode == "blackout":
            return
        if self.drop_request is not None and self.drop_request(data, src):
            return
        if self.request_hook is not None:
            self.request_hook(self, data, src)
        sock = self.sim._socket
        sock.dispatch_recevied_data(data, src)
        self.flush()

    def flush(self):
        sock = self.sim._socket
        out, sock._send_handlers = sock._send_handlers, []
        for i, (handler, dest) in enumerate(out):
            data = handler.send_bytes
            if self.reply_filter is not None:
                data = self.reply_filter(data)
            self.net.send(self.addr, (dest[0], dest[1]), data, base_delay=i * self.spacing)


def frame(src_id: bytes, dst_id: bytes, content: bytes) -> bytes:
    """in.touch2 framing written independently of packet.py (reference encoder)."""
    return (
        b"<PACKT><SRCCN>" + src_id + b"</SRCCN><DESCN>" + dst_id + b"</DESCN><DATAS>"
        + content + b"</DATAS></PACKT>"
    )


def unframe(data: bytes):
    """Reference decoder for well-formed frames whose ids contain no '<'. -> (src, dst, content)|None"""
    if not (data.startswith(b"<PACKT><SRCCN>") and data.endswith(b"</DATAS></PACKT>")):
        return None
    body = data[len(b"<PACKT><SRCCN>"):-len(b"</DATAS></PACKT>")]
    i = body.find(b"</SRCCN><DESCN>")
    if i < 0:
        return None
    src = body[:i]
    rest = body[i + len(b"</SRCCN><DESCN>"):]
    j = rest.find(b"</DESCN><DATAS>")
    if j < 0:
        return None
    return src, rest[:j], rest[j + len(b"</DESCN><DATAS>"):]


class ModelSpa(SimPeer):
    """SimPeer plus what a spa does and the simulator does not: apply SPACK set-value writes and
    keypad presses to its block, answer SETWC/GETWC from a stored mode, echo every change to its
    clients as a STATP partial update (2-byte records, the protocol's form)."""

    def __init__(self, snapshot=None, spacing=SimPeer.THROTTLE):
        super().__init__(snapshot, spacing)
        self.wc_mode = 1
        self.commands = []  # (t, kind, decoded dict, raw content)
        self.keypad_model = None  # fn(self, keycode) -> list of (pos, bytes) changes
        self.echo = True
        self.request_hook = ModelSpa._hook

    def apply(self, changes, client, src_id, dst_id):
        blk = self.block
        for pos, data in changes:
            blk = blk[:pos] + data + blk[pos + len(data):]
        self.set_block(blk)
        if self.echo and changes:
            recs = b"".join(struct.pack(">H", p) + d.ljust(2, b"\0")[:2] if len(d) == 2
                            else struct.pack(">H", p) + blk[p:p + 2] for p, d in changes)
            content = b"STATP" + bytes([len(changes)]) + recs
            self.net.send(self.addr, client, frame(dst_id, src_id, content), base_delay=0.05)

    def _hook(self, data, src):
        parts = unframe(data)
        if parts is None:
            return
        sid, did, content = parts
        t = self.net.loop.time()
        if content.startswith(b"SPACK"):
            r = content[5:]
            seq, ptype, ln, cmd = struct.unpack(">BBBB", r[:4])
            if cmd == 57:
                key = r[4]
                self.commands.append((t, "keypress", {"seq": seq, "pack_type": ptype, "len": ln, "key": key}, content))
                if self.keypad_model is not None:
                    self.apply(self.keypad_model(self, key), src, sid, did)
            elif cmd == 70:
                cfgv, logv, pos = struct.unpack(">BBH", r[4:8])
                val = r[8:]
                self.commands.append((t, "set_value", {"seq": seq, "pack_type": ptype, "len": ln,
                                                       "cfg": cfgv, "log": logv, "pos": pos, "data": val}, content))
                self.apply([(pos, val)], src, sid, did)
            else:
                self.commands.append((t, "spack?", {"seq": seq, "cmd": cmd}, content))
        elif content.startswith(b"SETWC"):
            seq, mode = struct.unpack(">BB", content[5:7])
            self.commands.append((t, "setwc", {"seq": seq, "mode": mode}, content))
            self.wc_mode = mode
            # the bundled simulator has no SETWC handler: the model acknowledges with WCSET
            self.net.send(self.addr, src, frame(did, sid, b"WCSET"), base_delay=0.0)
        elif content.startswith(b"GETWC"):
            # answered here with the stored mode (the simulator would always say 1)
            self.net.send(self.addr, src, frame(did, sid, b"WCGET" + bytes([self.wc_mode & 0xFF])))
            raise _Handled()

    def on_datagram(self, data, src):
        try:
            super().on_datagram(data, src)
        except _Handled:
            pass


class _Handled(Exception):
    pass
