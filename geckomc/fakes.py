"""Light stand-ins for spa/facade so that automation objects can be built on any table pair and
any block without a network (C11, C12, C14)."""
from __future__ import annotations

from . import lib

from geckolib.driver import GeckoAsyncStructure, GeckoStructure  # noqa: E402


class FakeSpa:
    """What the automation layer reads from a spa: accessors + struct (+ recording command sinks)."""

    def __init__(self, asyn=True):
        self.commands = []
        if asyn:
            self.struct = GeckoAsyncStructure(self._sv, self._asv)
        else:
            self.struct = GeckoStructure(self._sv)
        self.is_responding_to_pings = True
        self.is_connected = True
        self.is_in_error = False
        self.isopen = True
        self.on_connected = None
        self.descriptor = type("D", (), {"name": "Spa", "identifier_as_string": "SPA01:02:03:04:05:06"})()

    def _sv(self, pos, length, value):
        self.commands.append(("set", pos, length, value))

    async def _asv(self, pos, length, value):
        self.commands.append(("set", pos, length, value))

    @property
    def accessors(self):
        return self.struct.accessors

    def press(self, key):
        self.commands.append(("press", key))

    async def async_press(self, key):
        self.commands.append(("press", key))

    def load(self, platform, cfg, log):
        cfgm = lib.pack_module(f"{platform}-cfg-{cfg}")
        logm = lib.pack_module(f"{platform}-log-{log}")
        self.config_class = cfgm.GeckoConfigStruct(self.struct)
        self.log_class = logm.GeckoLogStruct(self.struct)
        self.struct.build_accessors(self.config_class, self.log_class)
        return self


class FakeTaskman:
    unique_id = "SPA010203040506"
    spa_name = "Spa"

    def __init__(self):
        self.tasks = []

    def add_task(self, coro, name, key):
        coro.close()
        self.tasks.append((key, name))

    def cancel_key_tasks(self, key):
        pass


class FakeFacade:
    """Enough of a facade for single automation objects (heater, sensors)."""

    unique_id = "SPA010203040506"
    name = "Spa"

    def __init__(self, spa):
        self._spa = spa

    @property
    def spa(self):
        return self._spa


def all_combinations():
    """[(platform, cfg, log)] for every shipped platform x config x log version."""
    out = []
    for plat, v in lib.platforms().items():
        for c in v["cfg"]:
            for l in v["log"]:
                out.append((plat, c, l))
    return out
