"""Reference bit-field codec for SpaPackStruct items, written from the pack-structure conventions
(big-endian 1- or 2-byte field at `pos`; optional BitPos; field width in bits from MaxItems:
enough bits for MaxItems values: <=2 -> 1, <=4 -> 2, <=8 -> 3, <=16 -> 4, <=32 -> 5, <=64 -> 6; Bool = 1 bit; no BitPos = the whole field) - NOT from
accessor.py.  Used as the oracle for C02/C03/C11/C12/C13/C14/C17."""
from __future__ import annotations


def nbits(maxitems, typ):
    if typ == "Bool":
        return 1
    if maxitems is None:
        return 1
    m = int(maxitems)
    return max(1, (m - 1).bit_length())


def width(typ, size):
    if typ in ("Word", "Time"):
        return 2
    if size is not None and int(size) == 2:
        return 2
    if size is not None:
        return int(size)
    return 1


class Field:
    """Geometry of one item, taken from its declaration (type, pos, bitpos, size, maxitems)."""

    def __init__(self, typ, pos, bitpos, size, maxitems, items=None, rw=None, tag=None):
        self.typ = typ
        self.pos = pos
        self.bitpos = bitpos
        self.width = width(typ, size)
        self.items = items
        self.rw = rw
        self.tag = tag
        if bitpos is None:
            self.mask = (1 << (8 * self.width)) - 1
            self.shift = 0
        else:
            self.mask = (1 << nbits(maxitems, typ)) - 1
            self.shift = bitpos

    @classmethod
    def of(cls, acc):
        """From a live accessor's *declaration* attributes (not its computed mask/format)."""
        typ = acc.type
        size = 2 if (typ == "Enum" and acc.length == 2) else None
        return cls(typ, acc.pos, acc.bitpos, size if typ == "Enum" else None, acc.maxitems, acc.items, acc.read_write, acc.tag)

    def word(self, block):
        return int.from_bytes(block[self.pos:self.pos + self.width], "big")

    def raw(self, block):
        return (self.word(block) >> self.shift) & self.mask

    def put_raw(self, block, raw):
        w = self.word(block)
        w = (w & ~(self.mask << self.shift)) | ((raw & self.mask) << self.shift)
        w &= (1 << (8 * self.width)) - 1
        return block[:self.pos] + w.to_bytes(self.width, "big") + block[self.pos + self.width:]

    def field_bits(self):
        """Set of absolute bit indices (byte*8 + bit-from-msb... kept simple: (byte, bit)) owned."""
        out = set()
        for b in range(8 * self.width):
            if (self.mask << self.shift) >> b & 1:
                byte = self.pos + self.width - 1 - b // 8
                out.add((byte, b % 8))
        return out

    def decode(self, block, units="F"):
        r = self.raw(block)
        if self.typ == "Bool":
            return r == 1
        if self.typ == "Enum":
            return self.items[r] if r < len(self.items) else "Unknown"
        if self.typ == "Time":
            return f"{r // 256:02}:{r % 256:02}"
        return r
