"""Reference encoder/decoder for the in.touch2 wire format, written from the protocol layout
(README / captured-traffic notes), independent of geckolib/driver/protocol/*.py."""
from __future__ import annotations

import struct


def frame(src: bytes, dst: bytes, content: bytes) -> bytes:
    return b"<PACKT><SRCCN>" + src + b"</SRCCN><DESCN>" + dst + b"</DESCN><DATAS>" + content + b"</DATAS></PACKT>"


def hello(content: bytes) -> bytes:
    return b"<HELLO>" + content + b"</HELLO>"


def hello_reply(spa_id: bytes, name: str) -> bytes:
    return hello(spa_id + b"|" + name.encode("latin-1"))


def seq_req(verb: bytes, seq: int) -> bytes:
    return verb + bytes([seq])


def svers(en, co) -> bytes:
    return b"SVERS" + struct.pack(">HBBHBB", en[0], en[1], en[2], co[0], co[1], co[2])


def chcur(channel, signal) -> bytes:
    return b"CHCUR" + bytes([channel, signal])


def files(plat: str, cfg: int, log: int) -> bytes:
    return b"FILES" + f",{plat}_C{cfg:02d}.xml,{plat}_S{log:02d}.xml".encode("latin-1")


def statu(seq, start, length) -> bytes:
    return b"STATU" + bytes([seq]) + start.to_bytes(2, "big") + length.to_bytes(2, "big")


def statv(index, nxt, data: bytes) -> bytes:
    return b"STATV" + bytes([index, nxt, len(data)]) + data


def statp(changes) -> bytes:
    return b"STATP" + bytes([len(changes)]) + b"".join(pos.to_bytes(2, "big") + d for pos, d in changes)


def statq(seq) -> bytes:
    return b"STATQ" + bytes([seq])


def spack_set(seq, pack_type, cfg, log, pos, length, value) -> bytes:
    return (b"SPACK" + bytes([seq, pack_type, 5 + length, 70, cfg, log]) + pos.to_bytes(2, "big")
            + value.to_bytes(length, "big"))


def spack_key(seq, pack_type, key) -> bytes:
    return b"SPACK" + bytes([seq, pack_type, 2, 57, key])


def wcget(mode) -> bytes:
    return b"WCGET" + bytes([mode])


def setwc(seq, mode) -> bytes:
    return b"SETWC" + bytes([seq, mode])


def rmreq(reminders) -> bytes:
    return b"RMREQ" + b"".join(struct.pack("<BhB", t, days, 1) for t, days in reminders)


VERB_OWNER = {
    b"APING": "Ping", b"AVERS": "Version", b"SVERS": "Version", b"CURCH": "GetChannel", b"CHCUR": "GetChannel",
    b"SFILE": "ConfigFile", b"FILES": "ConfigFile", b"STATU": "StatusBlock", b"STATV": "StatusBlock",
    b"STATP": "PartialStatusBlock", b"STATQ": "PartialStatusBlock", b"SPACK": "PackCommand", b"PACKS": "PackCommand",
    b"GETWC": "Watercare", b"WCGET": "Watercare", b"SETWC": "Watercare", b"WCSET": "Watercare", b"REQWC": "Watercare",
    b"WCREQ": "Watercare", b"WCERR": "WatercareError", b"REQRM": "Reminders", b"RMREQ": "Reminders",
    b"UPDTS": "UpdateFirmware", b"SUPDT": "UpdateFirmware", b"RFERR": "RFErr",
}
